package props

import (
	"fmt"
	"go/ast"
	"go/constant"
	"go/token"
	"go/types"
	"sort"
	"strings"

	"siotcheck/kit"
)

// C09 — no node access without valid credentials; valid users can log in.
//
// Files: c09.go (anchors, flow helper, R1 auth typestate, R2 handler
// inventory), c09_jwt.go (R3 token validation / issuance primitives),
// c09_store.go (R4 issuance gate, R5 credential check), c09_wire.go (R6 bus
// token wiring, R7 user listing roots).

const (
	c09HTTP   = "net/http"
	c09JWTPfx = "github.com/golang-jwt/jwt"
	c09NatsD  = "github.com/nats-io/nats-server/v2/server"
	apiPkg    = kit.ModPath + "/api"
)

func init() {
	kit.Register(&kit.Prop{
		ID:    "C09",
		Title: "No node access without valid credentials; valid users can log in",
		Explanation: "Structural necessary conditions of C09 decided on every CFG path / call site (DESIGN.md §3/C09): " +
			"R1 in every http.Handler of package api that has an authentication gate, each bus operation (method of a nats type, call leaving the package with a *nats.Conn, " +
			"helper that reaches one) is reached only on the equal edge of `Authorization header == configured token field` or the true edge of the JWT validator's result, " +
			"and every unauthenticated exit has sent status 401; " +
			"R2 every other handler of the package reaches no bus operation except the login handler's credential-check request; " +
			"R3 the JWT validator answers true only with no parse error ∧ alg == HS256 ∧ token.Valid, verifies with the key it signs with, requires the Bearer scheme, " +
			"reads the user id from the claim the issuer writes, the issuer signs HS256 with a future expiry, no constant-true validator is instantiated; " +
			"R4 the store's auth handler issues a token only after the credential check returned no error and ≥1 node and then publishes a payload to the reply subject; " +
			"R5 a user is kept iff e-mail and password both compare equal (in Go, or by `=` against the text of the point of that type in the query that selects the candidates; " +
			"a LIKE/GLOB/REGEXP/range operator, a parameter pasted into the statement text or a prefix/substring/pattern predicate is not such a comparison), only users with a live path are returned, the live-path search skips a tombstoned edge without ending the search, " +
			"answers true only at the root sentinel (or through the recursion) and walks down→up; " +
			"R6 NATS server Authorization, websocket token, the instance's own client token and the HTTP gate's token are all fed from the same configuration field; " +
			"R7 the user's node listing never asks for deleted nodes, starts at the parents of the user's instances and descends children only. " +
			"Not decided: the JWT library, NATS server enforcement, TLS, timing, password storage, interface implementations outside package api.",
		Assumptions: []string{
			"golang-jwt: Parse sets Token.Valid only when signature and time claims verify; NewWithClaims/SignedString sign with the given method and key",
			"nats-server refuses connections that do not present Options.Authorization / Websocket.Token",
			"net/http: a handler that returns after http.Error(…, 401) has no further effect",
			"bus reachability is computed over static calls and interface implementations inside package api (quick tier); func-valued fields are treated as bus operations",
			"non-atom conditions are treated as nondeterministic (both edges explored)",
			"SQLite: `=` on a TEXT column with the default collation is bytewise equality; x LIKE x holds for every text x when no ESCAPE is given; a user node carries one e-mail and one pass point",
			"same-package helpers, predicates, closures and methods are interpreted inline (depth ≤ 4, no recursion); a fact that is missing on a path through module code that was not interpreted, or after a test that was not understood, ends undecided, never as a violation",
		},
		Run: runC09,
	})
}

func runC09(c *kit.Ctx) {
	a := newC09Anchors(c)
	c09Handlers(c, a)
	c09JWT(c, a)
	c09Store(c, a)
	c09Wiring(c, a)
	c09Listing(c, a)
	// R8 (added after seed C09-c): the key the authorizer verifies with is the key the
	// store persisted
	{
		m := newStoreModel(c)
		r8 := c.Rule("R8", "the persisted signing key is the key in use", 1)
		if kf := findKeyField(m); kf != nil {
			checkPersistedKeyInUse(c, m, kf, r8)
		} else {
			r8.Ob(nil, nil, "key field", "exists").Undecided("field caching meta.jwt_key not found")
		}
	}
}

// ---------------------------------------------------------------------------
// Flow helper: kit.Std plus
//  (i) role tags on variables that hold the result of an anchor call
//      ("ro:<var>" = role, cleared on any other assignment to the variable);
//  (ii) a state-aware atomizer installed as CondEval.Leaf, so that role-tagged
//      error / bool / slice variables become rule atoms wherever they are
//      tested (facts are recorded under "a:<id>");
//  (iii) interprocedural evaluation (kit.Std.ShouldInline): same-package
//      helpers, predicates, closures and methods are run inline; roles and
//      boolean verdicts travel through their results ("rr:"/"rb:" keys), so a
//      guard moved into a helper that returns the verdict is still seen;
//  (iv) boolean locals assigned from a boolean expression fork on its value;
//  (v) opacity marks: "opq:<role>" is set when a value of that role (or an
//      expression the rule names) is handed to a module function that was not
//      interpreted — a rule that misses a fact on such a path ends undecided.

type c09Flow struct {
	f    *kit.Func
	st   *kit.Std
	info *types.Info
	// roles names the roles of the results of an anchor call (nil = not an anchor).
	roles func(call *ast.CallExpr) []string
	// atom recognises rule atoms under the state threaded through the condition.
	atom func(e ast.Expr, s kit.S) (id string, neg, ok bool)
	// onCall / onNode / onBranch / afterCond are optional client hooks.
	onCall    func(call *ast.CallExpr, n ast.Node, s kit.S) []kit.S
	onNode    func(n ast.Node, s kit.S) kit.S
	onBranch  func(br kit.Branch, s kit.S) (t, f []kit.S, handled bool)
	afterCond func(cond ast.Expr, t, f []kit.S) (t2, f2 []kit.S)
	fold      func(e ast.Expr, s kit.S) (val, ok bool)
	// inline selects the same-package callees that are evaluated inline.
	inline func(cf *kit.Func, call *ast.CallExpr) bool
	// opaque names extra roles whose facts an uninterpreted call may have decided
	// (e.g. "auth" when the request is handed over).
	opaque func(call *ast.CallExpr, s kit.S) []string

	stack         []*kit.Func // mirror of the inlined frames
	closureWrites map[*kit.Func][]types.Object
}

func newC09Flow(f *kit.Func) *c09Flow {
	return &c09Flow{f: f, st: &kit.Std{F: f}, info: f.Info(), closureWrites: map[*kit.Func][]types.Object{}}
}

const c09MaxInline = 4

// sync drops mirror frames that have been left.
func (fl *c09Flow) sync() {
	cur := fl.st.Cur()
	for len(fl.stack) > 0 && fl.stack[len(fl.stack)-1] != cur {
		fl.stack = fl.stack[:len(fl.stack)-1]
	}
}

// cur is the function whose body is being evaluated.
func (fl *c09Flow) cur() *kit.Func { return fl.st.Cur() }

// inlined reports whether we are inside an inlined callee.
func (fl *c09Flow) inlined() bool { return fl.st.Cur() != fl.f }

// willInline predicts whether kit.Std will evaluate the call inline.
func (fl *c09Flow) willInline(call *ast.CallExpr, n ast.Node) (*kit.Func, bool) {
	fl.sync()
	cf := fl.cur().CalleeFunc(call)
	if cf == nil || cf.Body == nil {
		return cf, false
	}
	if fl.inline == nil || cf.Pkg != fl.f.Pkg || cf == fl.f {
		return cf, false
	}
	if _, isGo := n.(*ast.GoStmt); isGo {
		return cf, false
	}
	for _, x := range fl.stack {
		if x == cf {
			return cf, false
		}
	}
	if len(fl.stack) >= c09MaxInline {
		return cf, false
	}
	if ps := cf.Params(); len(call.Args) < len(ps) {
		return cf, false
	}
	return cf, fl.inline(cf, call)
}

// obj resolves an expression to the object it denotes, mapping parameters of
// inlined callees to the caller's argument.
func (fl *c09Flow) obj(e ast.Expr) types.Object { return fl.st.ObjOf(e) }

// roleOf returns the role tag of the variable denoted by e under s.
func (fl *c09Flow) roleOf(e ast.Expr, s kit.S) string {
	e = fl.st.Resolve(e)
	if k := fl.fieldKey(e); k != "" {
		return s.Get("ro:" + k)
	}
	if _, ok := ast.Unparen(e).(*ast.Ident); !ok {
		return ""
	}
	o := kit.ObjOf(fl.info, e)
	if o == nil {
		return ""
	}
	return s.Get("ro:" + kit.VarID(o))
}

// fieldKey names the field `v.f` of a struct-valued local v ("" = e is not of
// that form): a helper may hand several results back in one small struct
// (`creds, ok := h.authorize(req)` … `creds.userID`), and the roles / boolean
// values of the fields travel under "ro:<v>.<f>" / "fv:<v>.<f>".
func (fl *c09Flow) fieldKey(e ast.Expr) string {
	sel, ok := ast.Unparen(e).(*ast.SelectorExpr)
	if !ok {
		return ""
	}
	fld, ok := kit.ObjOf(fl.info, sel).(*types.Var)
	if !ok || !fld.IsField() {
		return ""
	}
	x := fl.st.Resolve(sel.X)
	if _, ok := ast.Unparen(x).(*ast.Ident); !ok {
		return ""
	}
	v, ok := kit.ObjOf(fl.info, x).(*types.Var)
	if !ok || v.IsField() {
		return ""
	}
	if _, isStruct := v.Type().Underlying().(*types.Struct); !isStruct {
		return ""
	}
	if !c09Simple(fl.f, v) || !c09Simple(fl.cur(), v) {
		return ""
	}
	return kit.VarID(v) + "." + fld.Name()
}

// untracedField reports whether e is a field of a struct value whose origin
// the flow did not follow (not the result of an inlined callee, not assigned
// on this path): nothing is known about it, in either direction.
func (fl *c09Flow) untracedField(e ast.Expr, s kit.S) bool {
	e = ast.Unparen(fl.st.Resolve(e))
	sel, ok := e.(*ast.SelectorExpr)
	if !ok {
		return false
	}
	if fld, ok := kit.ObjOf(fl.info, sel).(*types.Var); !ok || !fld.IsField() {
		return false
	}
	k := fl.fieldKey(e)
	if k == "" {
		return true
	}
	return !s.Has("fw:"+k) && !s.Has("ft:"+k[:strings.LastIndex(k, ".")])
}

// dropFields forgets what is known about the fields of the struct local o.
func c09DropFields(s kit.S, o types.Object) kit.S {
	s = s.Del("ft:" + kit.VarID(o))
	for _, pre := range []string{"ro:", "fv:", "fw:"} {
		p := pre + kit.VarID(o) + "."
		for _, k := range s.Keys() {
			if strings.HasPrefix(k, p) {
				s = s.Del(k)
			}
		}
	}
	return s
}

// structResult records, at a return statement of an inlined callee, what the
// fields of a struct-valued result hold: a composite literal (omitted fields
// are zero), or a struct local whose fields are known.
func (fl *c09Flow) structResult(s kit.S, key string, e ast.Expr) kit.S {
	t := fl.info.TypeOf(e)
	if t == nil {
		return s
	}
	st, ok := t.Underlying().(*types.Struct)
	if !ok {
		return s
	}
	e = ast.Unparen(e)
	if id, ok := e.(*ast.Ident); ok {
		if o, ok := kit.ObjOf(fl.info, id).(*types.Var); ok && !o.IsField() {
			for i := 0; i < st.NumFields(); i++ {
				n := st.Field(i).Name()
				if r := s.Get("ro:" + kit.VarID(o) + "." + n); r != "" {
					s = s.Set("rr:"+key+"."+n, r)
				}
				if b := s.Get("fv:" + kit.VarID(o) + "." + n); b != "" {
					s = s.Set("rb:"+key+"."+n, b)
				}
			}
		}
		return s
	}
	lit, ok := e.(*ast.CompositeLit)
	if !ok {
		return s
	}
	vals := map[string]ast.Expr{}
	for i, el := range lit.Elts {
		if kv, ok := el.(*ast.KeyValueExpr); ok {
			if id, ok := kv.Key.(*ast.Ident); ok {
				vals[id.Name] = kv.Value
			}
		} else if i < st.NumFields() {
			vals[st.Field(i).Name()] = el
		}
	}
	for i := 0; i < st.NumFields(); i++ {
		n := st.Field(i).Name()
		v, given := vals[n]
		isBool := c09IsBool(st.Field(i).Type())
		switch {
		case !given && isBool:
			s = s.Set("rb:"+key+"."+n, "false")
		case !given:
		default:
			if r := fl.roleOf(v, s); r != "" {
				s = s.Set("rr:"+key+"."+n, r)
			} else if isBool {
				if c, ok := fl.st.FoldExpr(fl.st.Resolve(v), s); ok && c.Kind() == constant.Bool {
					s = s.Set("rb:"+key+"."+n, fmt.Sprint(constant.BoolVal(c)))
				}
			}
		}
	}
	return s
}

// writes lists the captured variables a local closure assigns.
func (fl *c09Flow) writes(cf *kit.Func) []types.Object {
	if w, ok := fl.closureWrites[cf]; ok {
		return w
	}
	var out []types.Object
	ast.Inspect(cf.Body, func(n ast.Node) bool {
		switch x := n.(type) {
		case *ast.AssignStmt:
			for _, l := range x.Lhs {
				if o := kit.ObjOf(fl.info, l); o != nil {
					out = append(out, o)
				}
			}
		case *ast.IncDecStmt:
			if o := kit.ObjOf(fl.info, x.X); o != nil {
				out = append(out, o)
			}
		}
		return true
	})
	fl.closureWrites[cf] = out
	return out
}

func (fl *c09Flow) setRole(s kit.S, l ast.Expr, role string) kit.S {
	if k := fl.fieldKey(l); k != "" {
		return s.Set("ro:"+k, role)
	}
	if _, isID := ast.Unparen(l).(*ast.Ident); !isID {
		return s
	}
	if o := kit.ObjOf(fl.info, l); o != nil && c09Simple(fl.cur(), o) {
		s = s.Set("ro:"+kit.VarID(o), role)
	}
	return s
}

// clearAssigned drops the role tags of the variables a statement (re)defines.
// (The tags live under a prefix of their own: kit.Std also "forgets" the
// operand of a range statement, which is a use, not a definition.)
func (fl *c09Flow) clearAssigned(n ast.Node, s kit.S) kit.S {
	drop := func(e ast.Expr) {
		if _, isID := ast.Unparen(e).(*ast.Ident); isID {
			if o := kit.ObjOf(fl.info, e); o != nil {
				s = s.Del("ro:" + kit.VarID(o))
				s = c09DropFields(s, o)
			}
		}
		// `v.f = …`
		if k := fl.fieldKey(e); k != "" {
			s = s.Del("ro:"+k).Del("fv:"+k).Set("fw:"+k, "1")
		}
	}
	switch x := n.(type) {
	case *ast.AssignStmt:
		for _, l := range x.Lhs {
			drop(l)
		}
	case *ast.IncDecStmt:
		drop(x.X)
	case *ast.ValueSpec:
		for _, nm := range x.Names {
			drop(nm)
		}
	case *ast.Ident:
		if fl.info.Defs[x] != nil || fl.isRangeVar(x) {
			drop(x)
		}
	}
	return s
}

// isRangeVar reports whether the identifier node is the key or value of a
// range statement (`for k, v = range …` with existing variables included).
func (fl *c09Flow) isRangeVar(id *ast.Ident) bool {
	if r, ok := fl.f.Prog.Parent(fl.cur().File, id).(*ast.RangeStmt); ok {
		return r.Key == ast.Expr(id) || r.Value == ast.Expr(id)
	}
	return false
}

// tag gives the left-hand sides of `… = call(…)` the roles of the call's
// results: those of an anchor call (fresh values: what was learnt about the
// previous value of the role is forgotten), or those an inlined callee
// returned.
func (fl *c09Flow) tag(s kit.S, lhs []ast.Expr, call *ast.CallExpr) kit.S {
	if call == nil {
		return s
	}
	if fl.roles != nil {
		if rs := fl.roles(call); rs != nil {
			for i, l := range lhs {
				if i >= len(rs) || rs[i] == "" {
					continue
				}
				for _, k := range s.Keys() {
					if k == "a:"+rs[i] || strings.HasPrefix(k, "a:"+rs[i]+".") || k == "opq:"+rs[i] {
						s = s.Del(k)
					}
				}
				s = fl.setRole(s, l, rs[i])
			}
			return s
		}
	}
	if cf := fl.cur().CalleeFunc(call); cf != nil {
		for i, l := range lhs {
			if r := s.Get(fmt.Sprintf("rr:%d:%d", cf.Pos(), i)); r != "" {
				s = fl.setRole(s, l, r)
			}
			s = fl.tagFields(s, l, fmt.Sprintf("%d:%d.", cf.Pos(), i))
			if b := s.Get(fmt.Sprintf("rb:%d:%d", cf.Pos(), i)); b != "" {
				if o := kit.ObjOf(fl.info, l); o != nil && c09IsBool(o.Type()) {
					s = s.Set("v:"+kit.VarID(o), b)
				}
			}
		}
	}
	return s
}

// tagFields gives the struct local l the field roles / values an inlined
// callee returned under the result key.
func (fl *c09Flow) tagFields(s kit.S, l ast.Expr, key string) kit.S {
	if _, isID := ast.Unparen(l).(*ast.Ident); !isID {
		return s
	}
	o, ok := kit.ObjOf(fl.info, l).(*types.Var)
	if !ok || o.IsField() || !c09Simple(fl.cur(), o) {
		return s
	}
	s = s.Set("ft:"+kit.VarID(o), "1")
	for _, k := range s.Keys() {
		switch {
		case strings.HasPrefix(k, "rr:"+key):
			s = s.Set("ro:"+kit.VarID(o)+"."+k[len("rr:"+key):], s.Get(k))
		case strings.HasPrefix(k, "rb:"+key):
			s = s.Set("fv:"+kit.VarID(o)+"."+k[len("rb:"+key):], s.Get(k))
		}
	}
	return s
}

// resultExprs lists the result expressions of a return statement of cf (named
// results for a bare return).
func c09ResultExprs(cf *kit.Func, r *ast.ReturnStmt) []ast.Expr {
	if len(r.Results) > 0 {
		return r.Results
	}
	var out []ast.Expr
	if cf.Type.Results != nil {
		for _, fld := range cf.Type.Results.List {
			for _, nm := range fld.Names {
				out = append(out, nm)
			}
		}
	}
	return out
}

// onReturn records, at a return statement of an inlined callee, the roles and
// boolean values of its results for the caller.
func (fl *c09Flow) onReturn(r *ast.ReturnStmt, s kit.S) []kit.S {
	states := fl.onReturn0(r, s)
	// forget the roles of the callee's locals
	cf := fl.cur()
	lo, hi := cf.Node().Pos(), cf.Node().End()
	for i, x := range states {
		for _, k := range x.Keys() {
			if !strings.HasPrefix(k, "ro:") && !strings.HasPrefix(k, "fv:") && !strings.HasPrefix(k, "fw:") && !strings.HasPrefix(k, "ft:") {
				continue
			}
			var pos int
			if at := strings.LastIndex(k, "@"); at >= 0 {
				fmt.Sscanf(k[at+1:], "%d", &pos)
			}
			if token.Pos(pos) >= lo && token.Pos(pos) <= hi {
				x = x.Del(k)
			}
		}
		states[i] = x
	}
	return states
}

func (fl *c09Flow) onReturn0(r *ast.ReturnStmt, s kit.S) []kit.S {
	cf := fl.cur()
	key := func(pre string, i int) string { return fmt.Sprintf("%s:%d:%d", pre, cf.Pos(), i) }
	res := c09ResultExprs(cf, r)
	// return g(…): hand the results of g through
	if len(res) == 1 {
		if call, ok := ast.Unparen(res[0]).(*ast.CallExpr); ok {
			if tv, ok := fl.info.Types[call]; ok {
				if tup, isTuple := tv.Type.(*types.Tuple); isTuple {
					if fl.roles != nil {
						if rs := fl.roles(call); rs != nil {
							for i := 0; i < tup.Len() && i < len(rs); i++ {
								if rs[i] != "" {
									for _, k := range s.Keys() {
										if k == "a:"+rs[i] || strings.HasPrefix(k, "a:"+rs[i]+".") {
											s = s.Del(k)
										}
									}
									s = s.Set(key("rr", i), rs[i])
								}
							}
							return []kit.S{s}
						}
					}
					if g := cf.CalleeFunc(call); g != nil {
						for i := 0; i < tup.Len(); i++ {
							if v := s.Get(fmt.Sprintf("rr:%d:%d", g.Pos(), i)); v != "" {
								s = s.Set(key("rr", i), v)
							}
							if v := s.Get(fmt.Sprintf("rb:%d:%d", g.Pos(), i)); v != "" {
								s = s.Set(key("rb", i), v)
							}
						}
					}
					return []kit.S{s}
				}
			}
		}
	}
	states := []kit.S{s}
	for i, e := range res {
		var next []kit.S
		for _, x := range states {
			if role := fl.roleOf(e, x); role != "" {
				x = x.Set(key("rr", i), role)
			}
			x = fl.structResult(x, fmt.Sprintf("%d:%d", cf.Pos(), i), e)
			t := fl.info.TypeOf(e)
			if t == nil || !c09IsBool(t) {
				next = append(next, x)
				continue
			}
			if v, ok := fl.st.FoldExpr(e, x); ok && v.Kind() == constant.Bool {
				next = append(next, x.Set(key("rb", i), fmt.Sprint(constant.BoolVal(v))))
				continue
			}
			if x.Has(key("rr", i)) {
				next = append(next, x) // a role-tagged bool stays an atom for the caller
				continue
			}
			ts, fs := fl.st.Eval.Eval(e, x)
			for _, y := range ts {
				next = append(next, y.Set(key("rb", i), "true"))
			}
			for _, y := range fs {
				next = append(next, y.Set(key("rb", i), "false"))
			}
		}
		states = next
	}
	return states
}

// forkBool handles `b := <boolean expression>`: the local takes both values,
// each with the facts that make the expression true / false.
func (fl *c09Flow) forkBool(s kit.S, l, r ast.Expr) []kit.S {
	o := kit.ObjOf(fl.info, l)
	if o == nil || !c09IsBool(o.Type()) {
		return []kit.S{s}
	}
	if _, isCall := ast.Unparen(r).(*ast.CallExpr); isCall {
		return []kit.S{s}
	}
	if _, ok := fl.st.FoldExpr(r, s); ok {
		return []kit.S{s}
	}
	if fl.roleOf(r, s) != "" {
		return []kit.S{s}
	}
	ts, fs := fl.st.Eval.Eval(r, s)
	if fl.afterCond != nil {
		// a condition held in a local is a condition
		ts, fs = fl.afterCond(r, ts, fs)
	}
	var out []kit.S
	for _, y := range ts {
		out = append(out, y.Set("v:"+kit.VarID(o), "true"))
	}
	for _, y := range fs {
		out = append(out, y.Set("v:"+kit.VarID(o), "false"))
	}
	return out
}

func c09DropResults(s kit.S) kit.S {
	for _, k := range s.Keys() {
		if strings.HasPrefix(k, "rr:") || strings.HasPrefix(k, "rb:") {
			s = s.Del(k)
		}
	}
	return s
}

// isModuleCallee reports whether the callee of a call could run code of the
// analysed module that the flow did not interpret.
func (fl *c09Flow) isModuleCallee(call *ast.CallExpr) bool {
	switch o := kit.Callee(fl.info, call).(type) {
	case *types.Func:
		return o.Pkg() != nil && strings.HasPrefix(o.Pkg().Path(), kit.ModPath)
	case *types.Var:
		_, isSig := o.Type().Underlying().(*types.Signature)
		return isSig
	case nil:
		// call of a call result / conversion
		if tv, ok := fl.info.Types[call.Fun]; ok && tv.IsType() {
			return false
		}
		return true
	}
	return false
}

func (fl *c09Flow) client() kit.Client {
	st := fl.st
	st.MaxInline = c09MaxInline
	if fl.inline != nil {
		st.ShouldInline = func(cf *kit.Func, call *ast.CallExpr) bool {
			fl.sync()
			if !fl.inline(cf, call) {
				return false
			}
			fl.stack = append(fl.stack, cf)
			return true
		}
	}
	atomAt := func(e ast.Expr, s kit.S) (string, bool, bool) {
		// role-tagged error variable (bare test or inside a compound condition)
		if x, trueIsErr, ok := kit.ErrCheck(fl.info, e); ok {
			if r := fl.roleOf(x, s); r != "" {
				return r, !trueIsErr, true
			}
		}
		// role-tagged boolean variable
		if r := fl.roleOf(e, s); r != "" {
			if t := fl.info.TypeOf(e); t != nil && c09IsBool(t) {
				return r, false, true
			}
		}
		// the boolean verdict of an inlined call whose result carries a role
		if call, ok := ast.Unparen(e).(*ast.CallExpr); ok {
			if cf := fl.cur().CalleeFunc(call); cf != nil {
				if r := s.Get(fmt.Sprintf("rr:%d:0", cf.Pos())); r != "" {
					return r, false, true
				}
			}
		}
		// role-tagged boolean compared with a constant: v == false, true != v
		if x, y, op, ok := kit.CmpAtom(e); ok && (op == token.EQL || op == token.NEQ) {
			if fl.roleOf(x, s) == "" {
				x, y = y, x
			}
			if r := fl.roleOf(x, s); r != "" {
				if tv, ok := fl.info.Types[y]; ok && tv.Value != nil && tv.Value.Kind() == constant.Bool {
					return r, constant.BoolVal(tv.Value) != (op == token.EQL), true
				}
			}
		}
		if fl.atom != nil {
			return fl.atom(e, s)
		}
		return "", false, false
	}
	if fl.fold != nil {
		st.Fold = fl.fold
	}
	st.OnCall = func(call *ast.CallExpr, n ast.Node, s kit.S) []kit.S {
		fl.sync()
		cf, inl := fl.willInline(call, n)
		// a local closure that assigns captured variables invalidates their tags
		if cf != nil && cf.Lit != nil && !inl {
			for _, o := range fl.writes(cf) {
				s = s.Del("ro:" + kit.VarID(o))
			}
		}
		states := []kit.S{s}
		if fl.onCall != nil {
			if r := fl.onCall(call, n, s); r != nil {
				states = r
			}
		}
		// opacity: values handed to module code that is not interpreted
		if !inl && fl.isModuleCallee(call) && (fl.roles == nil || fl.roles(call) == nil) {
			var marks []string
			args := append([]ast.Expr{}, call.Args...)
			if sel, ok := ast.Unparen(call.Fun).(*ast.SelectorExpr); ok {
				args = append(args, sel.X)
			}
			for _, arg := range args {
				if u, ok := ast.Unparen(arg).(*ast.UnaryExpr); ok && u.Op == token.AND {
					arg = u.X
				}
				if r := fl.roleOf(arg, s); r != "" {
					marks = append(marks, r)
				}
			}
			if fl.opaque != nil {
				marks = append(marks, fl.opaque(call, s)...)
			}
			if len(marks) > 0 {
				for i := range states {
					for _, m := range marks {
						states[i] = states[i].Set("opq:"+m, "1")
					}
				}
			}
		}
		return states
	}
	st.OnNode = func(n ast.Node, s kit.S) []kit.S {
		fl.sync()
		if r, ok := n.(*ast.ReturnStmt); ok {
			states := []kit.S{s}
			if fl.inlined() {
				states = fl.onReturn(r, s)
			}
			if fl.onNode != nil {
				for i := range states {
					states[i] = fl.onNode(n, states[i])
				}
			}
			return states
		}
		// roles of the right-hand sides are read before the left-hand sides lose theirs
		var rhsRoles []string
		if as, ok := n.(*ast.AssignStmt); ok && len(as.Lhs) == len(as.Rhs) {
			for _, r := range as.Rhs {
				rhsRoles = append(rhsRoles, fl.roleOf(r, s))
			}
		}
		s = fl.clearAssigned(n, s)
		states := []kit.S{s}
		switch x := n.(type) {
		case *ast.AssignStmt:
			if len(x.Rhs) == 1 {
				if call, ok := ast.Unparen(x.Rhs[0]).(*ast.CallExpr); ok {
					s = fl.tag(s, x.Lhs, call)
				}
			}
			states = []kit.S{s}
			if len(x.Lhs) == len(x.Rhs) && (x.Tok == token.ASSIGN || x.Tok == token.DEFINE) {
				for i, l := range x.Lhs {
					var next []kit.S
					for _, y := range states {
						// plain copies carry the role along: `valid, uid = ok, id`
						if i < len(rhsRoles) && rhsRoles[i] != "" {
							y = fl.setRole(y, l, rhsRoles[i])
						} else if k := fl.fieldKey(l); k != "" {
							// `v.f = true`
							if v, ok := fl.st.FoldExpr(fl.st.Resolve(x.Rhs[i]), y); ok && v.Kind() == constant.Bool {
								y = y.Set("fv:"+k, fmt.Sprint(constant.BoolVal(v)))
							}
						}
						next = append(next, fl.forkBool(y, l, x.Rhs[i])...)
					}
					states = next
				}
			}
		case *ast.ValueSpec:
			if len(x.Values) == 1 {
				if call, ok := ast.Unparen(x.Values[0]).(*ast.CallExpr); ok {
					var lhs []ast.Expr
					for _, nm := range x.Names {
						lhs = append(lhs, nm)
					}
					s = fl.tag(s, lhs, call)
				}
			}
			states = []kit.S{s}
			if len(x.Values) == len(x.Names) {
				for i, nm := range x.Names {
					var next []kit.S
					for _, y := range states {
						if r := fl.roleOf(x.Values[i], y); r != "" {
							y = fl.setRole(y, nm, r)
						}
						next = append(next, fl.forkBool(y, nm, x.Values[i])...)
					}
					states = next
				}
			}
		}
		for i := range states {
			states[i] = c09DropResults(states[i])
			if fl.onNode != nil {
				states[i] = fl.onNode(n, states[i])
			}
		}
		return states
	}
	if fl.onBranch != nil {
		st.OnBranch = func(br kit.Branch, s kit.S) (t, f []kit.S, handled bool) {
			fl.sync()
			return fl.onBranch(br, s)
		}
	}
	cl := st.Client()
	// Leaves are decided on the state threaded through the condition: rule
	// atoms first (valued lazily, recorded under "a:<id>"), then kit.Std's own
	// handling (inlined call results, error variables).
	stdLeaf := st.Eval.Leaf
	st.Eval.Leaf = func(e ast.Expr, s kit.S) (t, f []kit.S, handled bool) {
		// the boolean verdict of an inlined call
		if call, ok := ast.Unparen(e).(*ast.CallExpr); ok {
			if cf := fl.cur().CalleeFunc(call); cf != nil {
				switch s.Get(fmt.Sprintf("rb:%d:0", cf.Pos())) {
				case "true":
					return []kit.S{s}, nil, true
				case "false":
					return nil, []kit.S{s}, true
				}
			}
		}
		// a boolean field of a struct local whose value an inlined callee fixed
		if k := fl.fieldKey(fl.st.Resolve(e)); k != "" && fl.roleOf(e, s) == "" {
			switch s.Get("fv:" + k) {
			case "true":
				return []kit.S{s}, nil, true
			case "false":
				return nil, []kit.S{s}, true
			}
		}
		if id, neg, ok := atomAt(e, s); ok {
			k := "a:" + id
			if s.Has(k) {
				if (s.Get(k) == "T") != neg {
					return []kit.S{s}, nil, true
				}
				return nil, []kit.S{s}, true
			}
			sT, sF := s.Set(k, "T"), s.Set(k, "F")
			if neg {
				return []kit.S{sF}, []kit.S{sT}, true
			}
			return []kit.S{sT}, []kit.S{sF}, true
		}
		// len(<role var>) OP k, <role var> == nil: interval reasoning about emptiness
		if x, lo, hi, ok := c09LenTest(fl.info, e); ok {
			if r := fl.roleOf(x, s); r != "" {
				k := "a:" + r + ".nonempty"
				edge := func(pieces [][2]int64) []kit.S {
					// feasible under what is known, and what the edge teaches
					known := s.Get(k)
					canEmpty, canFull := false, false
					for _, p := range pieces {
						if p[0] > p[1] {
							continue
						}
						if p[0] == 0 {
							canEmpty = true
						}
						if p[1] >= 1 {
							canFull = true
						}
					}
					switch {
					case !canEmpty && !canFull, known == "T" && !canFull, known == "F" && !canEmpty:
						return nil
					case known != "":
						return []kit.S{s}
					case canFull && !canEmpty:
						return []kit.S{s.Set(k, "T")}
					case canEmpty && !canFull:
						return []kit.S{s.Set(k, "F")}
					}
					return []kit.S{s}
				}
				const inf = int64(1) << 40
				tp := [][2]int64{{lo, hi}}
				fp := [][2]int64{{0, lo - 1}, {hi + 1, inf}}
				if lo < 0 { // the test was a `!=`: lo, hi hold the excluded point as (-k-1)
					pt := -lo - 1
					tp = [][2]int64{{0, pt - 1}, {pt + 1, inf}}
					fp = [][2]int64{{pt, pt}}
				}
				return edge(tp), edge(fp), true
			}
		}
		// any other test that mentions a role-tagged value may decide what the
		// rule is after: remember that the path went through it
		var touched []string
		ast.Inspect(e, func(n ast.Node) bool {
			if id, ok := n.(*ast.Ident); ok {
				if r := fl.roleOf(id, s); r != "" {
					touched = append(touched, r)
				}
			}
			return true
		})
		if len(touched) > 0 {
			s2 := s
			for _, r := range touched {
				s2 = s2.Set("opq:"+r, "1")
			}
			if stdLeaf != nil {
				if t, f, ok := stdLeaf(e, s2); ok {
					return t, f, true
				}
			}
			return []kit.S{s2}, []kit.S{s2}, true
		}
		if stdLeaf != nil {
			return stdLeaf(e, s)
		}
		return nil, nil, false
	}
	orig := cl.Cond
	cl.Cond = func(cond ast.Expr, s kit.S) (t, f []kit.S) {
		fl.sync()
		t, f = orig(cond, s)
		for i := range t {
			t[i] = c09DropResults(t[i])
		}
		for i := range f {
			f[i] = c09DropResults(f[i])
		}
		if fl.afterCond != nil {
			t, f = fl.afterCond(cond, t, f)
		}
		return t, f
	}
	return cl
}

// eval evaluates a boolean expression (e.g. a returned value) under s.
func (fl *c09Flow) eval(e ast.Expr, s kit.S) (t, f []kit.S) {
	return fl.st.Eval.Eval(e, s)
}

func (fl *c09Flow) run(c *kit.Ctx, init kit.S) *kit.Result {
	res := fl.f.Prog.Graph(fl.f).Run(init, fl.client())
	if res.Overflow {
		c.Fatalf("C09: state overflow in %s", fl.f.Name)
	}
	for cf := range fl.st.Inlined {
		c.Analysed(cf)
	}
	return res
}

// c09SamePkg is the default inlining policy: every same-package callee.
func c09SamePkg(except ...*kit.Func) func(cf *kit.Func, call *ast.CallExpr) bool {
	return func(cf *kit.Func, call *ast.CallExpr) bool {
		for _, x := range except {
			if x == cf {
				return false
			}
		}
		return true
	}
}

// c09LenTest recognises `len(x) OP k` (either operand order).  The true edge means len(x) ∈ [lo, hi]; for `!=`
// the excluded point k is returned as lo = hi = -k-1.
func c09LenTest(info *types.Info, e ast.Expr) (x ast.Expr, lo, hi int64, ok bool) {
	const inf = int64(1) << 40
	a, b, op, isCmp := kit.CmpAtom(e)
	if !isCmp {
		return nil, 0, 0, false
	}
	lenArg := func(y ast.Expr) ast.Expr {
		call, ok := ast.Unparen(y).(*ast.CallExpr)
		if !ok || len(call.Args) != 1 {
			return nil
		}
		if bi, ok := kit.Callee(info, call).(*types.Builtin); !ok || bi.Name() != "len" {
			return nil
		}
		return call.Args[0]
	}
	flip := map[token.Token]token.Token{token.LSS: token.GTR, token.GTR: token.LSS, token.LEQ: token.GEQ, token.GEQ: token.LEQ, token.EQL: token.EQL, token.NEQ: token.NEQ}
	if lenArg(a) == nil {
		a, b, op = b, a, flip[op]
	}
	x = lenArg(a)
	if x == nil {
		return nil, 0, 0, false
	}
	k, isConst := kit.ConstInt(info, b)
	if !isConst || k < 0 && op != token.LSS && op != token.LEQ && op != token.GTR && op != token.GEQ {
		return nil, 0, 0, false
	}
	switch op {
	case token.LSS:
		return x, 0, k - 1, true
	case token.LEQ:
		return x, 0, k, true
	case token.GTR:
		if k < 0 {
			k = -1
		}
		return x, k + 1, inf, true
	case token.GEQ:
		if k < 0 {
			k = 0
		}
		return x, k, inf, true
	case token.EQL:
		return x, k, k, true
	case token.NEQ:
		return x, -k - 1, -k - 1, true
	}
	return nil, 0, 0, false
}

// c09Simple reports whether a local variable is only ever assigned by plain
// statements of f itself or of its local closures (no address taken).
func c09Simple(f *kit.Func, o types.Object) bool {
	ok := true
	ast.Inspect(f.Root().Body, func(n ast.Node) bool {
		if u, isU := n.(*ast.UnaryExpr); isU && u.Op == token.AND && kit.ObjOf(f.Info(), u.X) == o {
			ok = false
		}
		return true
	})
	return ok
}

// ---------------------------------------------------------------------------
// Anchors shared by the rules (all found by type / effect).

type c09Anchors struct {
	c           *kit.Ctx
	handlerIf   *types.Interface
	respWriter  types.Type
	entries     []*kit.Func           // handler entry points of package api
	bus         map[*kit.Func]bool    // api functions from which a bus operation is reachable
	parseFns    []*kit.Func           // api functions calling jwt.Parse*
	issuerFns   []*kit.Func           // api functions calling jwt.NewWithClaims
	issuerObjs  map[types.Object]bool // issuer functions and the interface methods they implement
	validFns    map[*kit.Func]bool    // request validators that reach a parse function
	validObjs   map[types.Object]bool // … and the interface methods they implement
	authHandler *kit.Func             // store: bus handler that issues tokens
	authSubject string
	credClients map[types.Object]bool // client functions that send the credential-check request
	credFn      *kit.Func             // store: the credential check
	tokenField  *types.Var            // api: handler field compared with the Authorization header

	fetchFn, listFn, walkFn  *kit.Func // client: node fetch, user listing, its recursive closure
	parentIdx, idIdx, delIdx int       // parameter positions of fetchFn
	listCalls                []*c09ListCall
}

// c09ListCall is a call of the user listing found in a gated handler.
type c09ListCall struct {
	f     *kit.Func
	call  *ast.CallExpr
	bad   string
	murky bool // the user id passed through code that was not interpreted
}

func c09IsJWT(obj types.Object, names ...string) bool {
	fn, ok := obj.(*types.Func)
	if !ok || fn.Pkg() == nil || !strings.HasPrefix(fn.Pkg().Path(), c09JWTPfx) {
		return false
	}
	for _, n := range names {
		if fn.Name() == n {
			return true
		}
	}
	return false
}

func c09NatsRecv(obj types.Object) bool {
	fn, ok := obj.(*types.Func)
	if !ok {
		return false
	}
	sig := fn.Type().(*types.Signature)
	if sig.Recv() == nil {
		// package-level constructors of connections
		if fn.Pkg() != nil && fn.Pkg().Path() == natsPkg && sig.Results().Len() > 0 &&
			kit.IsNamedType(sig.Results().At(0).Type(), natsPkg, "Conn") {
			return true
		}
		return false
	}
	t := sig.Recv().Type()
	if p, ok := t.(*types.Pointer); ok {
		t = p.Elem()
	}
	n, ok := types.Unalias(t).(*types.Named)
	return ok && n.Obj().Pkg() != nil && n.Obj().Pkg().Path() == natsPkg
}

func newC09Anchors(c *kit.Ctx) *c09Anchors {
	a := &c09Anchors{c: c, bus: map[*kit.Func]bool{}, issuerObjs: map[types.Object]bool{}, validFns: map[*kit.Func]bool{},
		validObjs: map[types.Object]bool{}, credClients: map[types.Object]bool{}}
	api := c.P.MustPkg("api")
	hp := c.P.ByPath[c09HTTP]
	if hp == nil || hp.Types == nil {
		c.Fatalf("package net/http not loaded")
	}
	ho, _ := hp.Types.Scope().Lookup("Handler").(*types.TypeName)
	ro, _ := hp.Types.Scope().Lookup("ResponseWriter").(*types.TypeName)
	if ho == nil || ro == nil {
		c.Fatalf("net/http.Handler / ResponseWriter not found")
	}
	a.handlerIf, _ = ho.Type().Underlying().(*types.Interface)
	a.respWriter = ro.Type()
	if a.handlerIf == nil {
		c.Fatalf("net/http.Handler is not an interface")
	}

	// ---- JWT primitives in api
	for _, f := range c.P.Funcs("api") {
		if f.Body == nil {
			continue
		}
		for _, call := range f.AllCalls(false) {
			obj := kit.Callee(f.Info(), call)
			switch {
			case c09IsJWT(obj, "Parse", "ParseWithClaims"):
				a.parseFns = appendFunc(a.parseFns, f)
			case c09IsJWT(obj, "NewWithClaims", "New"):
				a.issuerFns = appendFunc(a.issuerFns, f)
			}
		}
	}
	if len(a.parseFns) == 0 || len(a.issuerFns) == 0 {
		c.Fatalf("JWT primitives not found in package api (parse: %d, issue: %d functions)", len(a.parseFns), len(a.issuerFns))
	}
	for _, f := range a.issuerFns {
		if f.Obj != nil {
			a.issuerObjs[f.Obj] = true
			for _, m := range c09IfaceMethodsFor(api.Types, f.Obj) {
				a.issuerObjs[m] = true
			}
		}
	}
	// validators: (… *http.Request …) (bool, …) reaching a parse function
	// (static calls only: a function that merely consults a validator through an
	// interface, like a gate helper, is not itself a validator)
	c09StaticOnly = true
	reachParse := c09Reach(c, "api", func(f *kit.Func, call *ast.CallExpr) bool {
		return c09IsJWT(kit.Callee(f.Info(), call), "Parse", "ParseWithClaims")
	}, nil)
	c09StaticOnly = false
	for _, f := range c.P.Funcs("api") {
		if f.Obj == nil || !reachParse[f] {
			continue
		}
		sig := f.Obj.Type().(*types.Signature)
		if sig.Results().Len() == 0 || !c09IsBool(sig.Results().At(0).Type()) {
			continue
		}
		takesReq := false
		for i := 0; i < sig.Params().Len(); i++ {
			if kit.IsNamedType(sig.Params().At(i).Type(), c09HTTP, "Request") {
				takesReq = true
			}
		}
		if !takesReq {
			continue
		}
		a.validFns[f] = true
		a.validObjs[f.Obj] = true
		for _, m := range c09IfaceMethodsFor(api.Types, f.Obj) {
			a.validObjs[m] = true
		}
	}
	if len(a.validFns) == 0 {
		c.Fatalf("no request validator (func(*http.Request) (bool, …) reaching jwt.Parse) found in package api")
	}

	// ---- store: auth handler, its subject, the credential check
	for _, f := range c.P.Funcs("store") {
		if f.Body == nil || msgParam(f) == nil {
			continue
		}
		for _, call := range f.AllCalls(false) {
			if a.issuerObjs[kit.Callee(f.Info(), call)] {
				if a.authHandler != nil && a.authHandler != f {
					c.Fatalf("more than one bus handler of package store issues tokens: %s and %s", a.authHandler.Name, f.Name)
				}
				a.authHandler = f
			}
		}
	}
	if a.authHandler == nil {
		c.Fatalf("no bus handler in package store calls the token issuer")
	}
	for _, f := range c.P.Funcs("store") {
		if f.Body == nil {
			continue
		}
		for _, call := range f.AllCalls(true) {
			if !kit.CallIs(f.Info(), call, natsPkg+".(*Conn).Subscribe", natsPkg+".(*Conn).QueueSubscribe") || len(call.Args) < 2 {
				continue
			}
			for _, pr := range c09SubscriptionPairs(f, call.Args[0], call.Args[len(call.Args)-1]) {
				if pr.handler != types.Object(a.authHandler.Obj) {
					continue
				}
				if a.authSubject != "" && a.authSubject != pr.subject {
					c.Fatalf("%s is subscribed on two subjects: %q and %q", a.authHandler.Name, a.authSubject, pr.subject)
				}
				a.authSubject = pr.subject
			}
		}
	}
	if a.authSubject == "" {
		c.Fatalf("subscription of %s with a constant subject not found", a.authHandler.Name)
	}
	for _, f := range c.P.Funcs("client") {
		if f.Body == nil || f.Obj == nil {
			continue
		}
		for _, call := range f.AllCalls(false) {
			if !c09NatsRecv(kit.Callee(f.Info(), call)) || len(call.Args) == 0 {
				continue
			}
			if s, ok := kit.ConstString(f.Info(), call.Args[0]); ok && s == a.authSubject {
				a.credClients[f.Obj] = true
			}
		}
	}
	if len(a.credClients) == 0 {
		c.Fatalf("no function of package client sends a request on subject %q", a.authSubject)
	}
	// credential check: the function called from the auth handler (or one of its
	// helpers) that reads — itself or through helpers — the e-mail / password
	// fields of the user struct
	emailF, passF := c09UserFields(c)
	reads := map[*kit.Func]bool{}
	for _, f := range c.P.Funcs("store") {
		if f.Body == nil {
			continue
		}
		ast.Inspect(f.Body, func(n ast.Node) bool {
			if sel, ok := n.(*ast.SelectorExpr); ok {
				if o := kit.ObjOf(f.Info(), sel); o == types.Object(emailF) || o == types.Object(passF) {
					reads[f.Root()] = true
				}
			}
			return true
		})
	}
	readsDeep := func(f *kit.Func) bool {
		for _, g := range c09Closure(f) {
			if reads[g.Root()] {
				return true
			}
		}
		return false
	}
	for _, g := range c09Closure(a.authHandler) {
		if g.Body == nil {
			continue
		}
		for _, call := range g.AllCalls(false) {
			cf := g.CalleeFunc(call)
			if cf == nil || cf.Decl == nil || cf.PkgRel() != "store" || !readsDeep(cf) {
				continue
			}
			// the outermost such function on the way down from the handler
			inner := false
			for _, h := range c09Closure(a.authHandler) {
				if h != cf && h != a.authHandler && readsDeep(h) && h.Decl != nil {
					for _, c2 := range h.AllCalls(true) {
						if h.CalleeFunc(c2) == cf {
							inner = true
						}
					}
				}
			}
			if inner {
				continue
			}
			if a.credFn != nil && a.credFn != cf {
				c.Fatalf("the auth handler calls two functions that read the user's e-mail / password fields: %s and %s", a.credFn.Name, cf.Name)
			}
			a.credFn = cf
		}
	}
	if a.credFn == nil {
		c.Fatalf("credential check (function called from %s that reads the user's e-mail or password field) not found", a.authHandler.Name)
	}

	c09ListAnchors(c, a)

	// ---- api: handler entries and bus reachability
	a.entries = c09HandlerEntries(c, a)
	a.bus = c09Reach(c, "api", func(f *kit.Func, call *ast.CallExpr) bool { return a.directSink(f, call) != "" }, a)
	return a
}

// c09SubPair is one (subject constant, handler function) pair of a subscription.
type c09SubPair struct {
	subject string
	handler types.Object
}

// c09SubscriptionPairs resolves the subject and handler arguments of a
// Subscribe call of f: either a constant and a function / method value, or —
// table-driven subscriptions — two fields of the element of a loop over a
// local slice literal of structs (one pair per element of the literal).
func c09SubscriptionPairs(f *kit.Func, subj, handler ast.Expr) []c09SubPair {
	info := f.Info()
	if s, ok := kit.ConstString(info, subj); ok {
		if fn, ok := kit.ObjOf(info, handler).(*types.Func); ok {
			return []c09SubPair{{s, fn}}
		}
		return nil
	}
	ss, ok1 := ast.Unparen(subj).(*ast.SelectorExpr)
	hs, ok2 := ast.Unparen(handler).(*ast.SelectorExpr)
	if !ok1 || !ok2 {
		return nil
	}
	sf, _ := kit.ObjOf(info, ss).(*types.Var)
	hf, _ := kit.ObjOf(info, hs).(*types.Var)
	if sf == nil || hf == nil || !sf.IsField() || !hf.IsField() {
		return nil
	}
	loop := f.EnclosingLoop(subj)
	if loop == nil || !kit.LoopElem(info, loop, ss.X) && !kit.ElemAliases(info, loop)[kit.ObjOf(info, ss.X)] {
		return nil
	}
	if !kit.LoopElem(info, loop, hs.X) && !kit.ElemAliases(info, loop)[kit.ObjOf(info, hs.X)] {
		return nil
	}
	table, _ := ast.Unparen(c09LocalDef(f, loop.X)).(*ast.CompositeLit)
	if table == nil {
		return nil
	}
	var out []c09SubPair
	for _, el := range table.Elts {
		if u, ok := ast.Unparen(el).(*ast.UnaryExpr); ok && u.Op == token.AND {
			el = u.X
		}
		row, ok := ast.Unparen(el).(*ast.CompositeLit)
		if !ok {
			return nil
		}
		se, he := c09LitField(info, row, sf), c09LitField(info, row, hf)
		if se == nil || he == nil {
			return nil
		}
		s, ok := kit.ConstString(info, se)
		fn, ok2 := kit.ObjOf(info, he).(*types.Func)
		if !ok || !ok2 {
			return nil
		}
		out = append(out, c09SubPair{s, fn})
	}
	return out
}

func appendFunc(fs []*kit.Func, f *kit.Func) []*kit.Func {
	for _, x := range fs {
		if x == f {
			return fs
		}
	}
	return append(fs, f)
}

func c09IsBool(t types.Type) bool {
	b, ok := t.Underlying().(*types.Basic)
	return ok && b.Info()&types.IsBoolean != 0
}

func c09IsString(t types.Type) bool {
	b, ok := t.Underlying().(*types.Basic)
	return ok && b.Info()&types.IsString != 0
}

// c09UserFields returns the field objects of the e-mail and password of the
// user struct of package data: the fields that the node→user converters fill
// from the points of type email / pass (composite-literal form `F: v` with
// `v, _ := ….Text(PointTypeEmail, …)`, or switch form `case PointTypeEmail:
// x.F = p.Text`).
func c09UserFields(c *kit.Ctx) (email, pass *types.Var) {
	emailT, passT := dataConst(c, "PointTypeEmail"), dataConst(c, "PointTypePass")
	set := func(dst **types.Var, v *types.Var) {
		if *dst != nil && *dst != v {
			c.Fatalf("package data fills two different fields from the same credential point: %s and %s", (*dst).Name(), v.Name())
		}
		*dst = v
	}
	for _, f := range c.P.Funcs("data") {
		if f.Body == nil || f.Decl == nil {
			continue
		}
		info := f.Info()
		// variables defined from a call that names the point type
		src := map[types.Object]string{}
		ast.Inspect(f.Body, func(n ast.Node) bool {
			as, ok := n.(*ast.AssignStmt)
			if !ok || len(as.Rhs) != 1 {
				return true
			}
			call, ok := ast.Unparen(as.Rhs[0]).(*ast.CallExpr)
			if !ok {
				return true
			}
			for _, arg := range call.Args {
				if v, ok := kit.ConstString(info, arg); ok && (v == emailT || v == passT) {
					if o := kit.ObjOf(info, as.Lhs[0]); o != nil {
						src[o] = v
					}
				}
			}
			return true
		})
		ast.Inspect(f.Body, func(n ast.Node) bool {
			switch x := n.(type) {
			case *ast.CompositeLit:
				if _, ok := info.TypeOf(x).Underlying().(*types.Struct); !ok {
					return true
				}
				for _, el := range x.Elts {
					kv, ok := el.(*ast.KeyValueExpr)
					if !ok {
						continue
					}
					fld, _ := kit.ObjOf(info, kv.Key).(*types.Var)
					if fld == nil || !fld.IsField() {
						continue
					}
					switch src[kit.ObjOf(info, kv.Value)] {
					case emailT:
						set(&email, fld)
					case passT:
						set(&pass, fld)
					}
				}
			case *ast.CaseClause:
				which := ""
				for _, e := range x.List {
					if v, ok := kit.ConstString(info, e); ok && (v == emailT || v == passT) {
						which = v
					}
				}
				if which == "" || len(x.List) != 1 {
					return true
				}
				for _, st := range x.Body {
					as, ok := st.(*ast.AssignStmt)
					if !ok || len(as.Lhs) != 1 {
						continue
					}
					sel, ok := ast.Unparen(as.Lhs[0]).(*ast.SelectorExpr)
					if !ok {
						continue
					}
					fld, _ := kit.ObjOf(info, sel).(*types.Var)
					if fld == nil || !fld.IsField() || !c09IsString(fld.Type()) {
						continue
					}
					if which == emailT {
						set(&email, fld)
					} else {
						set(&pass, fld)
					}
				}
			}
			return true
		})
	}
	if email == nil || pass == nil {
		c.Fatalf("package data: fields filled from the %q / %q points not found", emailT, passT)
	}
	return email, pass
}

// c09IfaceMethodsFor lists the methods of interfaces declared in pkg that the
// receiver type of method m implements under the same name.
func c09IfaceMethodsFor(pkg *types.Package, m *types.Func) []types.Object {
	sig := m.Type().(*types.Signature)
	if sig.Recv() == nil {
		return nil
	}
	rt := sig.Recv().Type()
	var out []types.Object
	sc := pkg.Scope()
	for _, name := range sc.Names() {
		tn, ok := sc.Lookup(name).(*types.TypeName)
		if !ok {
			continue
		}
		it, ok := tn.Type().Underlying().(*types.Interface)
		if !ok {
			continue
		}
		if !types.Implements(rt, it) && !types.Implements(types.NewPointer(rt), it) {
			continue
		}
		for i := 0; i < it.NumMethods(); i++ {
			if it.Method(i).Name() == m.Name() {
				out = append(out, it.Method(i))
			}
		}
	}
	return out
}

// c09Impls resolves an interface method call to the implementations declared
// in package rel (conservative: every type of the package that implements the
// interface).
func c09Impls(c *kit.Ctx, rel string, m *types.Func) []*kit.Func {
	sig := m.Type().(*types.Signature)
	if sig.Recv() == nil {
		return nil
	}
	it, ok := sig.Recv().Type().Underlying().(*types.Interface)
	if !ok {
		return nil
	}
	pk := c.P.MustPkg(rel)
	var out []*kit.Func
	sc := pk.Types.Scope()
	for _, name := range sc.Names() {
		tn, ok := sc.Lookup(name).(*types.TypeName)
		if !ok || tn.IsAlias() {
			continue
		}
		if _, isIf := tn.Type().Underlying().(*types.Interface); isIf {
			continue
		}
		for _, t := range []types.Type{tn.Type(), types.NewPointer(tn.Type())} {
			if !types.Implements(t, it) {
				continue
			}
			obj, _, _ := types.LookupFieldOrMethod(t, true, pk.Types, m.Name())
			if fn, ok := obj.(*types.Func); ok {
				if f := c.P.FuncOf(fn); f != nil {
					out = appendFunc(out, f)
				}
			}
			break
		}
	}
	return out
}

// isDelegation reports whether the call hands the request to another
// http.Handler through the interface (that handler is an inventory entry of
// its own).
func (a *c09Anchors) isDelegation(f *kit.Func, call *ast.CallExpr) bool {
	fn, ok := kit.Callee(f.Info(), call).(*types.Func)
	if !ok {
		return false
	}
	sig := fn.Type().(*types.Signature)
	if sig.Recv() == nil {
		return false
	}
	it, ok := sig.Recv().Type().Underlying().(*types.Interface)
	if !ok || !types.Implements(sig.Recv().Type(), a.handlerIf) {
		return false
	}
	_ = it
	return fn.Name() == a.handlerIf.Method(0).Name() && a.handlerIf.NumMethods() == 1
}

// directSink classifies a call as a bus operation ("" = not one).
func (a *c09Anchors) directSink(f *kit.Func, call *ast.CallExpr) string {
	info := f.Info()
	obj := kit.Callee(info, call)
	if a.credClients[obj] {
		return "" // the credential-check request is open to everybody (login)
	}
	if c09NatsRecv(obj) {
		return kit.QualName(obj)
	}
	hasConn := false
	for _, arg := range call.Args {
		if kit.IsNamedType(info.TypeOf(arg), natsPkg, "Conn") {
			hasConn = true
		}
	}
	switch o := obj.(type) {
	case *types.Func:
		if hasConn && (o.Pkg() == nil || o.Pkg().Path() != f.Pkg.PkgPath) {
			return kit.QualName(o)
		}
	case *types.Var:
		if f.LocalClosure(o) == nil {
			// func-valued field / parameter / variable: callee unknown
			if _, isSig := o.Type().Underlying().(*types.Signature); isSig {
				return "dynamic call of " + o.Name()
			}
		}
	}
	return ""
}

// callees resolves the same-package callees of a call for reachability.
func c09Callees(c *kit.Ctx, a *c09Anchors, f *kit.Func, call *ast.CallExpr) []*kit.Func {
	if cf := f.CalleeFunc(call); cf != nil {
		if a != nil {
			for _, e := range a.entries {
				if e == cf {
					return nil // static delegation to another handler entry: checked there
				}
			}
		}
		if cf.PkgRel() == f.PkgRel() {
			return []*kit.Func{cf}
		}
		return nil
	}
	if fn, ok := kit.Callee(f.Info(), call).(*types.Func); ok && !c09StaticOnly {
		if a != nil && a.isDelegation(f, call) {
			return nil
		}
		return c09Impls(c, f.PkgRel(), fn)
	}
	return nil
}

// c09StaticOnly restricts c09Callees to statically resolved callees.
var c09StaticOnly bool

// c09FreeLits lists the function literals lexically inside n (not nested in
// one another) that are not bound to a local closure variable.
func c09FreeLits(f *kit.Func, n ast.Node) []*kit.Func {
	var out []*kit.Func
	ast.Inspect(n, func(x ast.Node) bool {
		lit, ok := x.(*ast.FuncLit)
		if !ok {
			return true
		}
		lf := f.Prog.LitFunc(f.PkgRel(), lit)
		if lf == nil {
			return false
		}
		bound := false
		switch p := f.Prog.Parent(f.File, lit).(type) {
		case *ast.AssignStmt:
			for i, r := range p.Rhs {
				if r == ast.Expr(lit) && i < len(p.Lhs) {
					if o := kit.ObjOf(f.Info(), p.Lhs[i]); o != nil && f.LocalClosure(o) == lf {
						bound = true
					}
				}
			}
		case *ast.ValueSpec:
			for i, r := range p.Values {
				if r == ast.Expr(lit) && i < len(p.Names) {
					if o := f.Info().Defs[p.Names[i]]; o != nil && f.LocalClosure(o) == lf {
						bound = true
					}
				}
			}
		}
		if !bound {
			out = append(out, lf)
		}
		return false
	})
	return out
}

// c09Reach computes the functions of package rel from which a call satisfying
// direct is reachable through same-package calls (static, local closures,
// interface implementations of the package, free function literals).
func c09Reach(c *kit.Ctx, rel string, direct func(f *kit.Func, call *ast.CallExpr) bool, a *c09Anchors) map[*kit.Func]bool {
	funcs := c.P.Funcs(rel)
	reach := map[*kit.Func]bool{}
	for changed := true; changed; {
		changed = false
		for _, f := range funcs {
			if reach[f] || f.Body == nil {
				continue
			}
			hit := false
			for _, call := range f.AllCalls(false) {
				if direct(f, call) {
					hit = true
					break
				}
				for _, cf := range c09Callees(c, a, f, call) {
					if reach[cf] {
						hit = true
					}
				}
				if hit {
					break
				}
			}
			if !hit {
				for _, lf := range c09FreeLits(f, f.Body) {
					if reach[lf] {
						hit = true
					}
				}
			}
			if hit {
				reach[f] = true
				changed = true
			}
		}
	}
	return reach
}

// c09HandlerEntries lists the entry points of HTTP handlers in package api:
// the ServeHTTP methods of the types implementing http.Handler, and function
// literals / functions of handler signature used as values.
func c09HandlerEntries(c *kit.Ctx, a *c09Anchors) []*kit.Func {
	pk := c.P.MustPkg("api")
	var out []*kit.Func
	sc := pk.Types.Scope()
	mname := a.handlerIf.Method(0).Name()
	hsig := a.handlerIf.Method(0).Type().(*types.Signature)
	for _, name := range sc.Names() {
		tn, ok := sc.Lookup(name).(*types.TypeName)
		if !ok || tn.IsAlias() {
			continue
		}
		if _, isIf := tn.Type().Underlying().(*types.Interface); isIf {
			continue
		}
		for _, t := range []types.Type{tn.Type(), types.NewPointer(tn.Type())} {
			if !types.Implements(t, a.handlerIf) {
				continue
			}
			obj, _, _ := types.LookupFieldOrMethod(t, true, pk.Types, mname)
			fn, _ := obj.(*types.Func)
			if fn == nil {
				break
			}
			if f := c.P.FuncOf(fn); f != nil && f.PkgRel() == "api" {
				out = appendFunc(out, f)
			} else if fn.Pkg() != nil && strings.HasPrefix(fn.Pkg().Path(), kit.ModPath) {
				c.Fatalf("handler type api.%s takes %s from %s: not analysed", name, mname, fn.Pkg().Path())
			}
			break
		}
	}
	sameSig := func(t types.Type) bool {
		s, ok := t.Underlying().(*types.Signature)
		if !ok || s.Recv() != nil {
			return false
		}
		return types.Identical(types.NewSignatureType(nil, nil, nil, s.Params(), s.Results(), s.Variadic()),
			types.NewSignatureType(nil, nil, nil, hsig.Params(), hsig.Results(), false))
	}
	for _, f := range c.P.Funcs("api") {
		if f.Body == nil {
			continue
		}
		if f.Lit != nil {
			if sameSig(f.Info().TypeOf(f.Lit)) {
				out = appendFunc(out, f)
			}
			continue
		}
	}
	// declared functions / methods of handler signature referenced as values
	for _, file := range pk.Syntax {
		ast.Inspect(file, func(n ast.Node) bool {
			var id *ast.Ident
			switch x := n.(type) {
			case *ast.Ident:
				id = x
			default:
				return true
			}
			fn, ok := pk.TypesInfo.Uses[id].(*types.Func)
			if !ok {
				return true
			}
			f := c.P.FuncOf(fn)
			if f == nil || f.PkgRel() != "api" {
				return true
			}
			// type of the expression the identifier is the head of
			var e ast.Expr = id
			if sel, ok := c.P.Parent(file, id).(*ast.SelectorExpr); ok && sel.Sel == id {
				e = sel
			}
			if call, ok := c.P.Parent(file, e).(*ast.CallExpr); ok && ast.Unparen(call.Fun) == e {
				return true // a call, not a value
			}
			if t := pk.TypesInfo.TypeOf(e); t != nil && sameSig(t) {
				out = appendFunc(out, f)
			}
			return true
		})
	}
	sort.Slice(out, func(i, j int) bool { return out[i].Pos() < out[j].Pos() })
	return out
}

// ---------------------------------------------------------------------------
// R1 / R2

type c09SinkHit struct {
	call ast.Node
	what string
	s    kit.S
}

// c09Gate is the result of the typestate run over one handler.
type c09Gate struct {
	f         *kit.Func
	gateSeen  bool // a header comparison or a validator call was evaluated
	sinks     []ast.Node
	sinkName  map[ast.Node]string
	sinkFunc  map[ast.Node]*kit.Func
	opaqueAt  map[ast.Node]bool // helper that reaches the bus and was not interpreted
	unauth    map[ast.Node]*c09SinkHit
	reached   map[ast.Node]bool
	res       *kit.Result
	exits401  int
	badExit   *kit.Exit
	murkyExit bool // an unauthenticated exit without 401 on a path through uninterpreted code
	tokenSeen map[*types.Var]bool
}

func c09Authed(s kit.S) bool {
	return s.Get("a:tok") == "T" || s.Get("a:valid") == "T"
}

func (a *c09Anchors) handlerParams(f *kit.Func) (res, req *types.Var) {
	for _, p := range f.Params() {
		switch {
		case types.Identical(p.Type(), a.respWriter):
			res = p
		case kit.IsNamedType(p.Type(), c09HTTP, "Request"):
			req = p
		}
	}
	return
}

// sinkAt names the bus operation performed by a call inside f ("" = none):
// a direct one, or a same-package callee from which one is reachable.
func (a *c09Anchors) sinkAt(f *kit.Func, call *ast.CallExpr) string {
	if w := a.directSink(f, call); w != "" {
		return w
	}
	for _, cf := range c09Callees(a.c, a, f, call) {
		if a.bus[cf] {
			return "helper " + cf.Name
		}
	}
	return ""
}

func (a *c09Anchors) isEntry(f *kit.Func) bool {
	for _, e := range a.entries {
		if e == f {
			return true
		}
	}
	return false
}

func (a *c09Anchors) runGate(f *kit.Func) *c09Gate {
	c := a.c
	info := f.Info()
	g := &c09Gate{f: f, sinkName: map[ast.Node]string{}, sinkFunc: map[ast.Node]*kit.Func{}, opaqueAt: map[ast.Node]bool{},
		unauth: map[ast.Node]*c09SinkHit{}, reached: map[ast.Node]bool{}, tokenSeen: map[*types.Var]bool{}}
	resP, reqP := a.handlerParams(f)
	var recv types.Object
	if f.Decl != nil && f.Decl.Recv != nil && len(f.Decl.Recv.List) == 1 && len(f.Decl.Recv.List[0].Names) == 1 {
		recv = info.Defs[f.Decl.Recv.List[0].Names[0]]
	}
	fl := newC09Flow(f)
	// helpers, predicates and methods of the package are interpreted inline; other
	// handler entries are checked on their own, validators are anchors
	fl.inline = func(cf *kit.Func, call *ast.CallExpr) bool {
		return !a.isEntry(cf) && !a.validFns[cf]
	}
	isReq := func(e ast.Expr) bool { return reqP != nil && fl.obj(e) == types.Object(reqP) }
	isRes := func(e ast.Expr) bool { return resP != nil && fl.obj(e) == types.Object(resP) }
	isAuthHeaderGet := func(e ast.Expr) bool {
		call, ok := ast.Unparen(e).(*ast.CallExpr)
		if !ok || len(call.Args) != 1 || !kit.CallIs(info, call, c09HTTP+".(Header).Get") {
			return false
		}
		if k, ok := kit.ConstString(info, call.Args[0]); !ok || !strings.EqualFold(k, "Authorization") {
			return false
		}
		// <req>.Header
		sel, ok := ast.Unparen(call.Fun).(*ast.SelectorExpr)
		if !ok {
			return false
		}
		hs, ok := ast.Unparen(sel.X).(*ast.SelectorExpr)
		return ok && isReq(hs.X)
	}
	tokenFieldOf := func(e ast.Expr) *types.Var {
		sel, ok := ast.Unparen(e).(*ast.SelectorExpr)
		if !ok || recv == nil || fl.obj(sel.X) != recv {
			return nil
		}
		v, ok := kit.ObjOf(info, sel).(*types.Var)
		if !ok || !v.IsField() || !c09IsString(v.Type()) {
			return nil
		}
		return v
	}
	isValidatorCall := func(call *ast.CallExpr) bool {
		if !a.validObjs[kit.Callee(info, call)] {
			return false
		}
		for _, arg := range call.Args {
			if isReq(arg) {
				return true
			}
		}
		return false
	}
	fl.roles = func(call *ast.CallExpr) []string {
		switch {
		case isValidatorCall(call):
			g.gateSeen = true
			return []string{"valid", "uid"}
		case isAuthHeaderGet(call):
			return []string{"hdr"}
		}
		return nil
	}
	fl.atom = func(e ast.Expr, s kit.S) (string, bool, bool) {
		x, y, op, ok := kit.CmpAtom(e)
		if !ok || (op != token.EQL && op != token.NEQ) {
			return "", false, false
		}
		isHdr := func(z ast.Expr) bool { return isAuthHeaderGet(z) || fl.roleOf(z, s) == "hdr" }
		if !isHdr(x) {
			x, y = y, x
		}
		if !isHdr(x) {
			return "", false, false
		}
		if tf := tokenFieldOf(y); tf != nil {
			g.tokenSeen[tf] = true
			g.gateSeen = true
			return "tok", op == token.NEQ, true
		}
		return "", false, false
	}
	// code that is not interpreted and receives the request, the handler or the
	// response writer may have decided (or answered) the authorisation itself
	fl.opaque = func(call *ast.CallExpr, s kit.S) []string {
		args := append([]ast.Expr{}, call.Args...)
		if sel, ok := ast.Unparen(call.Fun).(*ast.SelectorExpr); ok {
			args = append(args, sel.X)
		}
		for _, arg := range args {
			if isReq(arg) || (recv != nil && fl.obj(arg) == recv) {
				return []string{"auth"}
			}
		}
		return nil
	}
	note := func(n ast.Node, what string, s kit.S) {
		if _, ok := g.sinkName[n]; !ok {
			g.sinkName[n] = what
			g.sinks = append(g.sinks, n)
		}
		g.sinkFunc[n] = fl.cur()
		g.reached[n] = true
		if !c09Authed(s) && g.unauth[n] == nil {
			g.unauth[n] = &c09SinkHit{n, what, s}
		}
	}
	listSeen := map[*ast.CallExpr]*c09ListCall{}
	fl.onCall = func(call *ast.CallExpr, n ast.Node, s kit.S) []kit.S {
		cur := fl.cur()
		if w := a.directSink(cur, call); w != "" {
			note(call, w, s)
		} else if _, inl := fl.willInline(call, n); !inl {
			// a helper that reaches the bus and is not interpreted here
			for _, cf := range c09Callees(c, a, cur, call) {
				if a.bus[cf] {
					note(call, "helper "+cf.Name, s)
					g.opaqueAt[call] = true
					break
				}
			}
		}
		// whose nodes are listed: the user id the validator returned
		if a.listFn != nil && cur.CalleeFunc(call) == a.listFn && len(call.Args) == 2 {
			lc := listSeen[call]
			if lc == nil {
				lc = &c09ListCall{f: cur, call: call}
				listSeen[call] = lc
				a.listCalls = append(a.listCalls, lc)
			}
			murky := s.Get("opq:uid") == "1" || s.Get("opq:auth") == "1" || fl.untracedField(call.Args[1], s)
			// a definite finding on a later path replaces a murky one
			if fl.roleOf(call.Args[1], s) != "uid" && (lc.bad == "" || (lc.murky && !murky)) {
				lc.bad = fmt.Sprintf("%s at %s lists the nodes of `%s`, which on some path is not the user id returned by the JWT validator: a valid user can read another user's subtrees",
					a.listFn.Name, cur.At(call), cur.Str(call.Args[1]))
				lc.murky = murky
			}
		}
		// status 401 written to this request's ResponseWriter
		if resP != nil {
			has401, hasRes := false, false
			for _, arg := range call.Args {
				if v, ok := kit.ConstInt(info, arg); ok && v == 401 {
					has401 = true
				}
				if isRes(arg) {
					hasRes = true
				}
			}
			if sel, ok := ast.Unparen(call.Fun).(*ast.SelectorExpr); ok && isRes(sel.X) {
				hasRes = true
			}
			if has401 && hasRes {
				return []kit.S{s.Set("sent401", "1")}
			}
			// a status that is not a known constant may be 401
			if hasRes {
				for _, arg := range call.Args {
					if t := info.TypeOf(arg); t != nil {
						if b, ok := t.Underlying().(*types.Basic); ok && b.Info()&types.IsInteger != 0 {
							if _, isConst := kit.ConstInt(info, arg); !isConst {
								if v, ok := fl.st.FoldExpr(arg, s); ok && v.Kind() == constant.Int {
									if iv, _ := constant.Int64Val(v); iv == 401 {
										return []kit.S{s.Set("sent401", "1")}
									}
								} else {
									return []kit.S{s.Set("sentUnknown", "1")}
								}
							}
						}
					}
				}
			}
		}
		return nil
	}
	fl.onNode = func(n ast.Node, s kit.S) kit.S {
		for _, lf := range c09FreeLits(fl.cur(), n) {
			if a.bus[lf] {
				note(lf.Lit, "function literal reaching the bus", s)
			}
		}
		return s
	}
	// direct sinks of the handler body that the run never reaches still count as instances
	for _, call := range f.AllCalls(false) {
		if w := a.directSink(f, call); w != "" {
			g.sinkName[call] = w
			g.sinkFunc[call] = f
			g.sinks = append(g.sinks, call)
		}
	}
	g.res = fl.run(c, kit.NewS())
	for i := range g.res.Exits {
		e := g.res.Exits[i]
		if c09Authed(e.State) {
			continue
		}
		switch {
		case e.State.Get("sent401") == "1":
			g.exits401++
		case e.State.Get("opq:auth") == "1", e.State.Get("sentUnknown") == "1":
			g.murkyExit = true
		case g.badExit == nil:
			g.badExit = &g.res.Exits[i]
		}
	}
	sort.Slice(g.sinks, func(i, j int) bool { return g.sinks[i].Pos() < g.sinks[j].Pos() })
	return g
}

func c09SinkKey(g *c09Gate, n ast.Node) string {
	name := g.sinkName[n]
	k := 0
	for _, m := range g.sinks {
		if m == n {
			break
		}
		if g.sinkName[m] == name {
			k++
		}
	}
	short := name
	if i := strings.LastIndex(short, "/"); i >= 0 {
		short = short[i+1:]
	}
	if k > 0 {
		return fmt.Sprintf("bus operation %s#%d", short, k+1)
	}
	return "bus operation " + short
}

func c09Handlers(c *kit.Ctx, a *c09Anchors) {
	r1 := c.Rule("R1", "auth typestate before every bus operation", 10)
	r2 := c.Rule("R2", "handler inventory: only gated and login handlers reach the bus", 5)
	// functions from which an authentication test (validator call, read of the
	// Authorization header) is reachable
	gateHelpers := c09Reach(c, "api", func(f *kit.Func, call *ast.CallExpr) bool {
		if a.validObjs[kit.Callee(f.Info(), call)] {
			return true
		}
		if kit.CallIs(f.Info(), call, c09HTTP+".(Header).Get") && len(call.Args) == 1 {
			if k, ok := kit.ConstString(f.Info(), call.Args[0]); ok && strings.EqualFold(k, "Authorization") {
				return true
			}
		}
		return false
	}, a)
	gated := 0
	for _, f := range a.entries {
		c.Analysed(f)
		o2 := r2.Ob(f, nil, "handler "+f.Name, "reaches a bus operation only behind the authentication gate, or only the credential-check request")
		if !a.bus[f] {
			// the login handler reaches only the (exempt) credential-check request
			login := 0
			for _, call := range f.AllCalls(true) {
				if a.credClients[kit.Callee(f.Info(), call)] {
					login++
				}
			}
			if login > 0 {
				o2.OK("login handler: its only bus operation is the credential-check request on %q (%d site)", a.authSubject, login)
			} else {
				o2.OK("no bus operation reachable (requests handed to other handlers are checked there)")
			}
			continue
		}
		g := a.runGate(f)
		if !g.gateSeen && gateHelpers[f] {
			// an authentication test exists below the handler but the interpreter never evaluated it
			o2.Undecided("handler %s reaches the bus and an authentication test is reachable from it, but it was not evaluated on any interpreted path (too deep, recursive or behind an interface)", f.Name)
			continue
		}
		if !g.gateSeen {
			var names []string
			for _, n := range g.sinks {
				if !strings.HasPrefix(g.sinkName[n], "dynamic call") {
					names = append(names, fmt.Sprintf("%s at %s", g.sinkName[n], g.sinkFunc[n].At(n)))
				}
			}
			if len(names) == 0 {
				o2.Undecided("handler %s calls func-valued variables whose callees are unknown and has no authentication gate", f.Name)
				continue
			}
			o2.Violation("handler %s reaches the bus (%s) and neither it nor any function it calls compares the Authorization header with the configured token or calls a JWT validator",
				f.Name, strings.Join(names, "; "))
			continue
		}
		gated++
		o2.OK("gated handler: %d bus operation site(s) checked by R1", len(g.sinks))
		for tf := range g.tokenSeen {
			if a.tokenField != nil && a.tokenField != tf {
				c.Fatalf("handlers compare the Authorization header with different fields: %s and %s", a.tokenField.Name(), tf.Name())
			}
			a.tokenField = tf
		}
		for _, n := range g.sinks {
			sf := g.sinkFunc[n]
			o := r1.Ob(sf, n, c09SinkKey(g, n), "reached only on the equal edge of `Authorization header == configured token` or the true edge of the JWT validator's result")
			h := g.unauth[n]
			switch {
			case h != nil && (strings.HasPrefix(g.sinkName[n], "dynamic call") || g.opaqueAt[n] || h.s.Get("opq:auth") == "1"):
				o.Undecided("%s at %s is reached without an authentication fact on a path through code that was not interpreted (callee unknown, helper too deep/recursive, or the request was handed to another package)", g.sinkName[n], sf.At(n))
			case h != nil:
				o.Violation("%s at %s is reachable unauthenticated: header comparison %s, validator result %s on that path",
					h.what, sf.At(n), c09Fact(h.s, "a:tok", "equal", "not equal", "not evaluated"), c09Fact(h.s, "a:valid", "true", "false", "not obtained/tested"))
			case !g.reached[n]:
				o.OK("site unreachable")
			default:
				o.OK("every path to the site is authenticated")
			}
		}
		o := r1.Ob(f, nil, "401 branch", "every exit reached without authentication has sent status 401 (and, by the sink obligations, touched nothing)")
		switch {
		case g.badExit != nil:
			o.Violation("an exit is reachable unauthenticated without status 401 having been sent").WithPath(g.res.PathTo(*g.badExit))
		case g.murkyExit:
			o.Undecided("an unauthenticated exit without a recognised status 401 lies on a path through code that was not interpreted or that writes a status that is not a known constant")
		case g.exits401 == 0:
			o.Undecided("no interpreted unauthenticated path ends after sending status 401")
		default:
			o.OK("%d unauthenticated exit state(s), all after status 401", g.exits401)
		}
	}
	if gated == 0 {
		c.Fatalf("no gated handler found in package api")
	}
	if a.tokenField == nil {
		c.Fatalf("no handler compares the Authorization header with a token field of its receiver")
	}
}

func c09Fact(s kit.S, key, t, f, none string) string {
	switch s.Get(key) {
	case "T":
		return t
	case "F":
		return f
	}
	return none
}
