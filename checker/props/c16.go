package props

import (
	"fmt"
	"go/ast"
	"go/token"
	"go/types"
	"sort"
	"strings"

	"siotcheck/kit"
)

func init() {
	kit.Register(&kit.Prop{
		ID:    "C16",
		Title: "COBS framing delivers each frame intact for any read chunking",
		Explanation: "Byte-conservation clauses of the COBS reader/writer decided on every CFG path (DESIGN.md §3/C16); the behaviour over all read segmentations is decided for bounded streams only (R7). " +
			"R1 on the device-read path every return that hands a frame to the caller is preceded by a write of b[terminator(+1) : readStart+count] into the leftover buffer (or the tail is provably empty), the decoded slice starts at 0 and ends at the terminator, the byte tested as terminator lies below readStart+count, and the written value is that slice itself or a byte-for-byte copy (a bytes.Trim*/Replace*/Map… of it is a violation); " +
			"R2 before the first device read the leftover bytes are either known absent, or moved into b[0:] exactly once by leftover.Read (which drains them) and the device read starts exactly behind them; bytes handed to a bytes.NewBuffer object that is never read, or copied without being removed, are lost / seen twice; " +
			"R3 a frame served from the leftover buffer takes out of it exactly the prefix ending at the terminator it found (tested below the length of the leftover bytes; leftover.Read, or copy plus leftover.Next now or deferred), into b[0:], and decodes no more than it took; every exit taken after such a fragment was found and before any device read — error exits included — has removed it (progress); " +
			"R4 the read loop calls the device again only with b[previous start + previous count:] and only after that position was established to be < len(b); after a device read without error it gives up (returns nothing) only when the position reached len(b) or exceeds a configuration field of the receiver; " +
			"R6 at the first device read every flag tested by the scan of the device bytes is true only after a moved byte b[K], K below the number of moved bytes, was seen non-zero, and false only when nothing was moved, the examined constant prefix covers all moved bytes, or a counting loop over all moved bytes established b[i] == 0 in every continuing iteration; " +
			"R5 what the writer hands to the device is zero bytes followed by Encode(<whole payload parameter>) on every non-error path; " +
			"R7 the reader, run on the object the package's constructor builds, is evaluated on the AST (kit.XMachine; the in-place decoder replaced by its contract) for every stream of up to 6 bytes over {delimiter, frame byte, at most one damaged frame byte} and every cut of it into device reads: the frames handed to the caller are exactly the undamaged terminated frames, in order, each once, and none is still held back when the reader asks the device for bytes that do not come (this covers which bytes of a read the terminator scan examines and the packet-start flag across reads); a construct the evaluator does not model leaves R7 undecided. " +
			"A terminator found by bytes.IndexByte(<view of b | leftover bytes>, 0) is followed by R1–R3 like a hand-written `x[i] == 0` test. " +
			"Index arithmetic is compared as linear forms over the current values of local variables; facts are dropped when a variable is assigned.",
		Assumptions: []string{
			"io.Reader contract: Read(p) returns 0 <= n <= len(p) and fills p[:n]; with len(p)==0 it returns 0, nil",
			"bytes.Buffer: Read(p) removes min(len(p), Len()) bytes from the front into p; Write appends; a Buffer made by bytes.NewBuffer(x) never writes into x[:len(x)]",
			"github.com/dim13/cobs.Encode returns the encoded frame including its terminating zero; the in-place decoder's arithmetic is not checked",
			"non-atom conditions are nondeterministic (both edges explored); resynchronisation after damage and the packet-start flag carried across reads are decided by R7 within its bound only",
			"R7: the caller passes a fresh zeroed buffer longer than the stream (as client/serial.go does) and the constructor's integer parameters are that length; a device read returns at least one byte; streams longer than 6 bytes, frames at the length limit and the decoder's own length checks are not covered",
		},
		Run: runC16,
	})
}

// ---------------------------------------------------------------------------
// anchors

type c16Reader struct {
	f         *kit.Func
	recv      types.Object // receiver variable
	buf       *types.Var   // the caller's []byte
	dev       *types.Var   // interface-typed field whose Read is called
	lo        *types.Var   // bytes.Buffer field (leftover)
	lbVars    map[types.Object]bool
	viewVars  map[types.Object]bool   // locals that only ever hold views of buf
	lossyVars map[types.Object]string // locals that hold a lossy transformation of a view of buf
	unsafe    map[types.Object]bool   // ints whose address is taken / assigned in closures
}

func c16IsByteSlice(t types.Type) bool {
	s, ok := t.Underlying().(*types.Slice)
	if !ok {
		return false
	}
	b, ok := s.Elem().Underlying().(*types.Basic)
	return ok && b.Kind() == types.Uint8
}

func c16RecvVar(f *kit.Func) types.Object {
	if f.Decl == nil || f.Decl.Recv == nil || len(f.Decl.Recv.List) == 0 || len(f.Decl.Recv.List[0].Names) == 0 {
		return nil
	}
	return f.Info().Defs[f.Decl.Recv.List[0].Names[0]]
}

// c16IfaceCall matches `<recv>.<field>.<method>(args)` where field has an
// interface type; it returns the field.
func c16IfaceCall(f *kit.Func, recv types.Object, call *ast.CallExpr, method string) *types.Var {
	sel, ok := ast.Unparen(call.Fun).(*ast.SelectorExpr)
	if !ok || sel.Sel.Name != method {
		return nil
	}
	fn, ok := kit.Callee(f.Info(), call).(*types.Func)
	if !ok {
		return nil
	}
	sig := fn.Type().(*types.Signature)
	if sig.Params().Len() != 1 || !c16IsByteSlice(sig.Params().At(0).Type()) || sig.Results().Len() != 2 {
		return nil
	}
	fs, ok := ast.Unparen(sel.X).(*ast.SelectorExpr)
	if !ok {
		return nil
	}
	fld, ok := kit.ObjOf(f.Info(), fs).(*types.Var)
	if !ok || !fld.IsField() || !types.IsInterface(fld.Type()) {
		return nil
	}
	if id, ok := ast.Unparen(fs.X).(*ast.Ident); !ok || kit.ObjOf(f.Info(), id) != recv {
		return nil
	}
	return fld
}

func c16BufferFields(recv types.Object) []*types.Var {
	t := recv.Type()
	if p, ok := t.(*types.Pointer); ok {
		t = p.Elem()
	}
	st, ok := t.Underlying().(*types.Struct)
	if !ok {
		return nil
	}
	var out []*types.Var
	for i := 0; i < st.NumFields(); i++ {
		if kit.IsNamedType(st.Field(i).Type(), "bytes", "Buffer") {
			out = append(out, st.Field(i))
		}
	}
	return out
}

func c16FindReaders(c *kit.Ctx) []*c16Reader {
	var out []*c16Reader
	for _, f := range c.P.Funcs("client") {
		recv := c16RecvVar(f)
		if recv == nil || f.Body == nil {
			continue
		}
		var rd *c16Reader
		for _, call := range f.AllCalls(false) {
			fld := c16IfaceCall(f, recv, call, "Read")
			if fld == nil || len(call.Args) != 1 {
				continue
			}
			for _, p := range f.Params() {
				if c16IsByteSlice(p.Type()) && kit.IsViewOf(f.Info(), c16Resolve(f, call.Args[0]), p) {
					if rd == nil {
						rd = &c16Reader{f: f, recv: recv, buf: p, dev: fld}
					} else if rd.dev != fld || rd.buf != p {
						c.Fatalf("%s reads from two devices / into two buffers", f.Name)
					}
				}
			}
		}
		if rd == nil {
			continue
		}
		bufs := c16BufferFields(recv)
		if len(bufs) != 1 {
			c.Fatalf("%s reads a device into the caller's buffer but its receiver has %d bytes.Buffer fields (expected exactly one leftover buffer)", f.Name, len(bufs))
		}
		rd.lo = bufs[0]
		rd.prepare()
		out = append(out, rd)
	}
	// stages that only serve the leftover buffer (a reader split over several
	// methods): leftover.Read into a view of the []byte parameter, no device read
	if len(out) > 0 {
		for _, f := range c.P.Funcs("client") {
			recv := c16RecvVar(f)
			if recv == nil || f.Body == nil {
				continue
			}
			dup := false
			for _, r := range out {
				if r.f == f {
					dup = true
				}
			}
			bufs := c16BufferFields(recv)
			if dup || len(bufs) != 1 {
				continue
			}
			for _, p := range f.Params() {
				if !c16IsByteSlice(p.Type()) {
					continue
				}
				rd := &c16Reader{f: f, recv: recv, buf: p, lo: bufs[0]}
				serves := false
				for _, call := range f.AllCalls(false) {
					if rd.loMethod(call) == "Read" && len(call.Args) == 1 && kit.IsViewOf(f.Info(), c16Resolve(f, call.Args[0]), p) {
						serves = true
					}
				}
				if serves {
					rd.prepare()
					out = append(out, rd)
					break
				}
			}
		}
	}
	return out
}

func (rd *c16Reader) prepare() {
	info := rd.f.Info()
	rd.lbVars = map[types.Object]bool{}
	rd.unsafe = map[types.Object]bool{}
	var walk func(n ast.Node, inLit bool)
	walk = func(n ast.Node, inLit bool) {
		ast.Inspect(n, func(x ast.Node) bool {
			switch y := x.(type) {
			case *ast.FuncLit:
				if x != n {
					walk(y.Body, true)
					return false
				}
			case *ast.UnaryExpr:
				if y.Op == token.AND {
					if o := kit.ObjOf(info, y.X); o != nil {
						rd.unsafe[o] = true
					}
				}
			case *ast.AssignStmt:
				if inLit {
					for _, l := range y.Lhs {
						if o := kit.ObjOf(info, l); o != nil {
							rd.unsafe[o] = true
						}
					}
				}
				if len(y.Lhs) == 1 && len(y.Rhs) == 1 {
					if call, ok := ast.Unparen(y.Rhs[0]).(*ast.CallExpr); ok && rd.loMethod(call) == "Bytes" {
						if o := kit.ObjOf(info, y.Lhs[0]); o != nil {
							rd.lbVars[o] = true
						}
					}
				}
			case *ast.IncDecStmt:
				if inLit {
					if o := kit.ObjOf(info, y.X); o != nil {
						rd.unsafe[o] = true
					}
				}
			}
			return true
		})
	}
	walk(rd.f.Body, false)
	// an alias of the leftover bytes that is assigned more than once is not an alias we follow
	for o := range rd.lbVars {
		n := 0
		ast.Inspect(rd.f.Body, func(x ast.Node) bool {
			if as, ok := x.(*ast.AssignStmt); ok {
				for _, l := range as.Lhs {
					if kit.ObjOf(info, l) == o {
						n++
					}
				}
			}
			return true
		})
		if n != 1 {
			delete(rd.lbVars, o)
		}
	}
	// locals that only ever hold views of the caller's buffer
	rd.viewVars = map[types.Object]bool{}
	bad := map[types.Object]bool{}
	ast.Inspect(rd.f.Body, func(x ast.Node) bool {
		as, ok := x.(*ast.AssignStmt)
		if !ok {
			return true
		}
		for i, l := range as.Lhs {
			o, ok := kit.ObjOf(info, l).(*types.Var)
			if !ok || o.IsField() || !c16IsByteSlice(o.Type()) || o == rd.buf {
				continue
			}
			if len(as.Lhs) == len(as.Rhs) && (as.Tok == token.DEFINE || as.Tok == token.ASSIGN) && kit.IsViewOf(info, as.Rhs[i], rd.buf) {
				rd.viewVars[o] = true
			} else {
				bad[o] = true
			}
		}
		return true
	})
	for o := range bad {
		delete(rd.viewVars, o)
	}
	for o := range rd.unsafe {
		delete(rd.viewVars, o)
	}
	// locals that receive a lossy transformation of a view (x := bytes.TrimLeft(b[..], …);
	// also x = bytes.TrimLeft(x, …) for a view variable x, which then stops being a view)
	rd.lossyVars = map[types.Object]string{}
	for round := 0; round < 2; round++ {
		ast.Inspect(rd.f.Body, func(x ast.Node) bool {
			as, ok := x.(*ast.AssignStmt)
			if !ok || len(as.Lhs) != len(as.Rhs) {
				return true
			}
			for i, l := range as.Lhs {
				o, ok := kit.ObjOf(info, l).(*types.Var)
				if !ok || o.IsField() || !c16IsByteSlice(o.Type()) {
					continue
				}
				save := rd.viewVars
				if bad[o] {
					// a variable that is a view except for lossy reassignments
					tmp := map[types.Object]bool{o: true}
					for k, v := range rd.viewVars {
						tmp[k] = v
					}
					rd.viewVars = tmp
				}
				if why := rd.lossy(as.Rhs[i]); why != "" {
					rd.lossyVars[o] = why
				}
				rd.viewVars = save
			}
			return true
		})
	}
}

// c16Lossy lists library functions whose result can be shorter than, or
// differ from, their first argument.
var c16Lossy = map[string]bool{
	"bytes.Trim": true, "bytes.TrimLeft": true, "bytes.TrimRight": true, "bytes.TrimSpace": true,
	"bytes.TrimPrefix": true, "bytes.TrimSuffix": true, "bytes.TrimFunc": true, "bytes.TrimLeftFunc": true,
	"bytes.TrimRightFunc": true, "bytes.Replace": true, "bytes.ReplaceAll": true, "bytes.ToUpper": true,
	"bytes.ToLower": true, "bytes.ToTitle": true, "bytes.Map": true, "bytes.ToValidUTF8": true,
	"bytes.CutPrefix": true, "bytes.CutSuffix": true,
}

// preserving strips wrappers that copy their argument byte for byte:
// bytes.Clone(x), slices.Clone(x), append([]byte(nil), x...), append([]byte{}, x...).
func (rd *c16Reader) preserving(e ast.Expr) ast.Expr {
	info := rd.f.Info()
	for depth := 0; depth < 4; depth++ {
		call, ok := ast.Unparen(e).(*ast.CallExpr)
		if !ok {
			return e
		}
		if kit.CallIs(info, call, "bytes.Clone", "slices.Clone") && len(call.Args) == 1 {
			e = call.Args[0]
			continue
		}
		if bi, ok := kit.Callee(info, call).(*types.Builtin); ok && bi.Name() == "append" && len(call.Args) == 2 && call.Ellipsis.IsValid() {
			empty := kit.IsNilIdent(info, call.Args[0])
			if cl, ok := ast.Unparen(call.Args[0]).(*ast.CompositeLit); ok && len(cl.Elts) == 0 {
				empty = true
			}
			if cv, ok := ast.Unparen(call.Args[0]).(*ast.CallExpr); ok && len(cv.Args) == 1 && kit.IsNilIdent(info, cv.Args[0]) {
				if tv, ok := info.Types[cv.Fun]; ok && tv.IsType() {
					empty = true
				}
			}
			if empty {
				e = call.Args[1]
				continue
			}
		}
		return e
	}
	return e
}

// lossy: e is a view of the caller's buffer passed through a function that
// can drop or change bytes (directly or through a local variable).
func (rd *c16Reader) lossy(e ast.Expr) string {
	info := rd.f.Info()
	e = ast.Unparen(rd.preserving(e))
	if id, ok := e.(*ast.Ident); ok {
		if o := kit.ObjOf(info, id); o != nil && rd.lossyVars[o] != "" {
			return rd.lossyVars[o]
		}
		return ""
	}
	call, ok := e.(*ast.CallExpr)
	if !ok || len(call.Args) == 0 {
		return ""
	}
	if q := kit.QualName(kit.Callee(info, call)); c16Lossy[q] {
		inner := rd.preserving(call.Args[0])
		isV := kit.IsViewOf(info, inner, rd.buf)
		if id, ok := ast.Unparen(inner).(*ast.Ident); ok {
			if o := kit.ObjOf(info, id); o != nil && (rd.viewVars[o] || rd.lossyVars[o] != "") {
				isV = true
			}
		}
		if isV || rd.lossy(inner) != "" {
			return rd.f.Str(call)
		}
	}
	return ""
}

// isDevRead: the call reads the wrapped device of this reader.
func (rd *c16Reader) isDevRead(call *ast.CallExpr) bool {
	return rd.dev != nil && c16IfaceCall(rd.f, rd.recv, call, "Read") == rd.dev
}

// isLeftover: `<recv>.<lo>` (optionally behind & or parentheses).
func (rd *c16Reader) isLeftover(e ast.Expr) bool {
	e = ast.Unparen(e)
	if u, ok := e.(*ast.UnaryExpr); ok && u.Op == token.AND {
		e = ast.Unparen(u.X)
	}
	sel, ok := e.(*ast.SelectorExpr)
	if !ok || kit.ObjOf(rd.f.Info(), sel) != rd.lo {
		return false
	}
	id, ok := ast.Unparen(sel.X).(*ast.Ident)
	return ok && kit.ObjOf(rd.f.Info(), id) == rd.recv
}

// loMethod returns the name of the bytes.Buffer method called on the leftover
// buffer, or "".
func (rd *c16Reader) loMethod(call *ast.CallExpr) string {
	sel, ok := ast.Unparen(call.Fun).(*ast.SelectorExpr)
	if !ok || !rd.isLeftover(sel.X) {
		return ""
	}
	if fn, ok := kit.Callee(rd.f.Info(), call).(*types.Func); ok {
		return fn.Name()
	}
	return ""
}

// mentionsLeftover: e contains the leftover field or an alias of its bytes.
func (rd *c16Reader) mentionsLeftover(e ast.Node) bool {
	found := false
	ast.Inspect(e, func(x ast.Node) bool {
		switch y := x.(type) {
		case *ast.SelectorExpr:
			if rd.isLeftover(y) {
				found = true
			}
		case *ast.Ident:
			if o := kit.ObjOf(rd.f.Info(), y); o != nil && rd.lbVars[o] {
				found = true
			}
		}
		return !found
	})
	return found
}

// mentionsLeftoverShallow is mentionsLeftover without looking into nested
// calls (they are classified on their own), except leftover.Bytes().
func (rd *c16Reader) mentionsLeftoverShallow(e ast.Node) bool {
	found := false
	ast.Inspect(e, func(x ast.Node) bool {
		switch y := x.(type) {
		case *ast.CallExpr:
			if rd.loMethod(y) == "Bytes" {
				found = true
			}
			return false
		case *ast.SelectorExpr:
			if rd.isLeftover(y) {
				found = true
			}
		case *ast.Ident:
			if o := kit.ObjOf(rd.f.Info(), y); o != nil && rd.lbVars[o] {
				found = true
			}
		}
		return !found
	})
	return found
}

// aff normalises an integer expression, refusing variables the flow cannot follow.
func (rd *c16Reader) aff(e ast.Expr) (kit.Affine, bool) {
	a, ok := kit.AffineOf(rd.f.Info(), e)
	if !ok {
		return a, false
	}
	for o := range rd.unsafe {
		if a.Mentions(o) {
			return a, false
		}
	}
	return a, true
}

// ---------------------------------------------------------------------------
// verdict collection

type c16Site struct {
	rule      string
	node      ast.Node
	construct string
	oblig     string
	ok        []string
	viol      []string
	undec     []string
}

type c16Sites struct {
	order []string
	m     map[string]*c16Site
}

func (ss *c16Sites) at(rule string, node ast.Node, construct, oblig string) *c16Site {
	k := rule + "|" + construct
	if s, ok := ss.m[k]; ok {
		return s
	}
	if ss.m == nil {
		ss.m = map[string]*c16Site{}
	}
	s := &c16Site{rule: rule, node: node, construct: construct, oblig: oblig}
	ss.m[k] = s
	ss.order = append(ss.order, k)
	return s
}

func c16Add(list *[]string, msg string) {
	for _, x := range *list {
		if x == msg {
			return
		}
	}
	*list = append(*list, msg)
}

type c16CanonLoop struct {
	rz     string
	region string
	lo     kit.Affine
}

type c16Decode struct {
	call *ast.CallExpr
	arg  ast.Expr
}

type c16Verdict struct {
	kind string // ok | viol | undec
	msg  string
}

func c16V(kind, format string, a ...any) c16Verdict {
	return c16Verdict{kind, fmt.Sprintf(format, a...)}
}

func (s *c16Site) add(v c16Verdict) {
	switch v.kind {
	case "ok":
		c16Add(&s.ok, v.msg)
	case "viol":
		c16Add(&s.viol, v.msg)
	default:
		c16Add(&s.undec, v.msg)
	}
}

// ---------------------------------------------------------------------------
// the flow

type c16Flow struct {
	c   *kit.Ctx
	rd  *c16Reader
	st  *kit.Std
	tab map[string]kit.Affine // Affine.Key() -> form
	ss  c16Sites
	// write-only buffers: local variables made by bytes.NewBuffer whose every use is a write
	writeOnly map[types.Object]bool
	pure      map[*kit.Func]bool            // same-package helpers evaluated inline
	canon     map[types.Object]c16CanonLoop // counting loops over the buffer / leftover bytes, by counter
	decodes   []c16Decode                   // decode calls whose count is bound to a variable
	elemVars  map[types.Object]bool         // range value variables met so far: elements the atoms do not name
}

func (fl *c16Flow) intern(a kit.Affine) string {
	k := a.Key()
	fl.tab[k] = a
	return k
}

var c16OpNames = map[token.Token]string{token.LSS: "lt", token.LEQ: "le", token.GTR: "gt", token.GEQ: "ge", token.EQL: "eq", token.NEQ: "ne"}
var c16OpToks = map[string]token.Token{"lt": token.LSS, "le": token.LEQ, "gt": token.GTR, "ge": token.GEQ, "eq": token.EQL, "ne": token.NEQ}

// atom recognises the leaves the rules reason about.
func (fl *c16Flow) atom(e ast.Expr) (string, bool, bool) {
	rd := fl.rd
	info := rd.f.Info()
	e = fl.rw(e)
	if id, neg, ok := fl.countAtom(e); ok {
		return id, neg, true
	}
	a, b, op, isCmp := kit.CmpAtom(e)
	if !isCmp {
		return "", false, false
	}
	// X[idx] == 0
	if op == token.EQL || op == token.NEQ {
		x, z := a, b
		if v, ok := kit.ConstInt(info, x); ok && v == 0 {
			x, z = z, x
		}
		if v, ok := kit.ConstInt(info, z); ok && v == 0 {
			if ix, ok := ast.Unparen(x).(*ast.IndexExpr); ok {
				which := ""
				switch y := ast.Unparen(ix.X).(type) {
				case *ast.Ident:
					o := kit.ObjOf(info, y)
					if o == rd.buf {
						which = "b"
					} else if o != nil && rd.lbVars[o] {
						which = "l"
					}
				case *ast.CallExpr:
					if rd.loMethod(y) == "Bytes" {
						which = "l"
					}
				}
				if which != "" {
					if idx, ok := rd.aff(ix.Index); ok {
						return "z:" + which + ":" + fl.intern(idx), op == token.NEQ, true
					}
				}
			}
		}
	}
	// leftover.Len() / len(alias) against a constant
	lenSide := func(x ast.Expr) bool {
		call, ok := ast.Unparen(x).(*ast.CallExpr)
		if !ok {
			return false
		}
		if rd.loMethod(call) == "Len" {
			return true
		}
		if bi, ok := kit.Callee(info, call).(*types.Builtin); ok && bi.Name() == "len" && len(call.Args) == 1 {
			if o := kit.ObjOf(info, call.Args[0]); o != nil && rd.lbVars[o] {
				return true
			}
			if c2, ok := ast.Unparen(call.Args[0]).(*ast.CallExpr); ok && rd.loMethod(c2) == "Bytes" {
				return true
			}
		}
		return false
	}
	mirror := map[token.Token]token.Token{token.LSS: token.GTR, token.GTR: token.LSS, token.LEQ: token.GEQ, token.GEQ: token.LEQ, token.EQL: token.EQL, token.NEQ: token.NEQ}
	if lenSide(b) {
		a, b, op = b, a, mirror[op]
	}
	if lenSide(a) {
		if k, ok := kit.ConstInt(info, b); ok {
			return fmt.Sprintf("len:%s:%d", c16OpNames[op], k), false, true
		}
		// compared with a variable: an ordinary integer comparison (below)
	}
	// affine integer comparison
	if d, op2, ok := kit.IntCmp(info, e); ok {
		for o := range rd.unsafe {
			if d.Mentions(o) {
				return "", false, false
			}
		}
		if _, isConst := d.Const(); isConst {
			return "", false, false
		}
		return "c:" + c16OpNames[op2] + ":" + fl.intern(d), false, true
	}
	return "", false, false
}

// bounds lists the integer facts the state carries.
func (fl *c16Flow) bounds(s kit.S) []kit.Bound {
	var out []kit.Bound
	for _, k := range s.Keys() {
		if !strings.HasPrefix(k, "a:c:") {
			continue
		}
		rest := strings.TrimPrefix(k, "a:c:")
		i := strings.Index(rest, ":")
		if i < 0 {
			continue
		}
		op, ok := c16OpToks[rest[:i]]
		d, ok2 := fl.tab[rest[i+1:]]
		if !ok || !ok2 {
			continue
		}
		out = append(out, kit.CmpBounds(d, op, s.Get(k) == "T")...)
		if d2 := fl.substEq(d, s); d2.Key() != d.Key() {
			out = append(out, kit.CmpBounds(d2, op, s.Get(k) == "T")...)
		}
	}
	return out
}

// leftoverLen returns the interval of leftover.Len() implied by the
// comparisons with constants decided on the path ("a:len:<op>:<k>").
// feasible=false: the path is impossible.
func (fl *c16Flow) leftoverLen(s kit.S) (lo, hi int64, feasible bool) {
	const inf = int64(1) << 40
	lo, hi = 0, inf
	var nes []int64
	for _, k := range s.Keys() {
		if !strings.HasPrefix(k, "a:len:") {
			continue
		}
		parts := strings.Split(strings.TrimPrefix(k, "a:len:"), ":")
		if len(parts) != 2 {
			continue
		}
		var c int64
		fmt.Sscanf(parts[1], "%d", &c)
		for _, b := range kit.CmpBounds(kit.AffConst(0), c16OpToks[parts[0]], s.Get(k) == "T") {
			// CmpBounds speaks about D = Len - c with D's terms empty; shift by c
			switch {
			case b.NonZero:
				nes = append(nes, c)
			case b.Upper:
				if b.M+c < hi {
					hi = b.M + c
				}
			default:
				if b.M+c > lo {
					lo = b.M + c
				}
			}
		}
	}
	for changed := true; changed; {
		changed = false
		for _, c := range nes {
			if c == lo && lo <= hi {
				lo++
				changed = true
			}
			if c == hi && lo <= hi {
				hi--
				changed = true
			}
		}
	}
	return lo, hi, lo <= hi
}

// leafKnown reports whether the engine interprets the condition leaf exactly
// (constant fold, error check, or one of the rule's atoms over variables whose
// values it follows).  Paths that passed a leaf it does not interpret carry
// "q:unk": a failed proof on such a path is undecided, not a violation.
func (fl *c16Flow) leafKnown(e ast.Expr, s kit.S) bool {
	info := fl.rd.f.Info()
	e = ast.Unparen(e)
	// a test of a range value variable is a test of an element of what is ranged
	// over; the atoms are stated over indices, so the decision is not interpreted
	elem := false
	ast.Inspect(e, func(n ast.Node) bool {
		if id, ok := n.(*ast.Ident); ok && fl.elemVars[kit.ObjOf(info, id)] {
			elem = true
		}
		return !elem
	})
	if elem {
		return false
	}
	switch x := e.(type) {
	case *ast.UnaryExpr:
		if x.Op == token.NOT {
			return fl.leafKnown(x.X, s)
		}
	case *ast.BinaryExpr:
		if x.Op == token.LAND || x.Op == token.LOR {
			return fl.leafKnown(x.X, s) && fl.leafKnown(x.Y, s)
		}
	}
	if tv, ok := info.Types[e]; ok && tv.Value != nil {
		return true
	}
	if _, _, ok := kit.ErrCheck(info, e); ok {
		return true
	}
	if _, ok := fl.st.FoldExpr(e, s); ok {
		return true
	}
	if call, isCall := e.(*ast.CallExpr); isCall && fl.pureHelper(fl.rd.f.CalleeFunc(call)) && fl.predicateKnown(fl.rd.f.CalleeFunc(call)) {
		return true
	}
	id, _, ok := fl.atom(e)
	if !ok {
		return false
	}
	if strings.HasPrefix(id, "c:") {
		d := fl.tab[id[strings.Index(id[2:], ":")+3:]]
		for t := range d.Terms {
			switch {
			case strings.HasPrefix(t, "len["):
				if t != "len"+kit.VarToken(fl.rd.buf) {
					lb := false
					for o := range fl.rd.lbVars {
						if t == "len"+kit.VarToken(o) {
							lb = true
						}
					}
					if !lb {
						return false
					}
				}
			case strings.HasPrefix(t, "v["):
				if s.Get("q:opq:"+strings.TrimPrefix(t, "v")) != "" {
					return false
				}
			}
		}
	}
	return true
}

// usesLeftover: the body of h (or of a function of the package it calls)
// selects the leftover field.
func (fl *c16Flow) usesLeftover(h *kit.Func, depth int) bool {
	if h == nil || h.Body == nil || h.Pkg != fl.rd.f.Pkg || depth > 3 {
		return false
	}
	info := h.Info()
	found := false
	ast.Inspect(h.Body, func(n ast.Node) bool {
		switch x := n.(type) {
		case *ast.SelectorExpr:
			if kit.ObjOf(info, x) == types.Object(fl.rd.lo) {
				found = true
			}
		case *ast.CallExpr:
			if g := h.CalleeFunc(x); g != nil && g != h && fl.usesLeftover(g, depth+1) {
				found = true
			}
		}
		return !found
	})
	return found
}

func (fl *c16Flow) provesLE(s kit.S, target kit.Affine, limit int64) bool {
	if k, ok := target.Const(); ok {
		return k <= limit
	}
	for _, b := range fl.bounds(s) {
		if b.ImpliesLE(target, limit) {
			return true
		}
	}
	return false
}

// terminators returns the index forms K for which `X[K] == 0` is known true.
func (fl *c16Flow) terminators(s kit.S, which string) []kit.Affine {
	var out []kit.Affine
	pre := "a:z:" + which + ":"
	for _, k := range s.Keys() {
		if strings.HasPrefix(k, pre) && s.Get(k) == "T" {
			if a, ok := fl.tab[strings.TrimPrefix(k, pre)]; ok {
				out = append(out, a)
			}
		}
	}
	return out
}

// invalidate drops every fact that mentions variable o.
func (fl *c16Flow) invalidate(s kit.S, o types.Object) kit.S {
	if o == nil {
		return s
	}
	return fl.invalidateTok(s, kit.VarToken(o))
}

// c16Ghost names the start position of the latest device read.
const c16Ghost = "[readStart@0]"

func (fl *c16Flow) invalidateTok(s kit.S, tok string) kit.S {
	for _, k := range s.Keys() {
		if !strings.HasPrefix(k, "q:") && !strings.HasPrefix(k, "a:") {
			continue
		}
		if strings.Contains(k, tok) || strings.Contains(s.Get(k), tok) {
			switch k {
			case "q:saved":
				s = s.Set(k, "stale")
			case "q:mv":
				parts := strings.SplitN(s.Get(k), "|", 2)
				for i := range parts {
					if strings.Contains(parts[i], tok) {
						parts[i] = "stale"
					}
				}
				s = s.Set(k, strings.Join(parts, "|"))
			default:
				s = s.Del(k)
			}
		}
	}
	return s
}

func (fl *c16Flow) dropPrefix(s kit.S, pre string) kit.S {
	for _, k := range s.Keys() {
		if strings.HasPrefix(k, pre) {
			s = s.Del(k)
		}
	}
	return s
}

// value evaluates an integer expression to a linear form over the variables
// whose current value is not otherwise known, substituting the equalities the
// state carries ("q:eq:<var>").
func (fl *c16Flow) value(e ast.Expr, s kit.S) (kit.Affine, bool) {
	a, ok := fl.rd.aff(fl.rw(e))
	if !ok {
		return a, false
	}
	return fl.substEq(a, s), true
}

func (fl *c16Flow) substEq(a kit.Affine, s kit.S) kit.Affine {
	for round := 0; round < 3; round++ {
		changed := false
		for _, t := range a.VarTerms() {
			tok := strings.TrimPrefix(t, "v")
			if k := s.Get("q:eq:" + tok); k != "" {
				if v, ok := fl.tab[k]; ok {
					c := a.Terms[t]
					b := kit.Affine{Terms: map[string]int64{}, K: a.K}
					for kk, vv := range a.Terms {
						if kk != t {
							b.Terms[kk] = vv
						}
					}
					for i := int64(0); i < c16Abs(c); i++ {
						if c > 0 {
							b = b.Add(v)
						} else {
							b = b.Sub(v)
						}
					}
					a = b
					changed = true
				}
			}
		}
		if !changed {
			break
		}
	}
	return a
}

func c16Abs(x int64) int64 {
	if x < 0 {
		return -x
	}
	return x
}

func c16Small(a kit.Affine) bool {
	if c16Abs(a.K) > 4 || len(a.Terms) > 4 {
		return false
	}
	for _, c := range a.Terms {
		if c16Abs(c) > 2 {
			return false
		}
	}
	return true
}

// assignInt maintains the "q:eq:" equalities across one assignment to the
// integer variable o; newVal is the value it receives (ok=false: unknown).
func (fl *c16Flow) assignInt(s kit.S, o types.Object, newVal kit.Affine, ok bool) kit.S {
	s = fl.invalidate(s, o)
	if ok && !newVal.Mentions(o) && c16Small(newVal) && !fl.rd.unsafe[o] {
		s = s.Set("q:eq:"+kit.VarToken(o), fl.intern(newVal))
	}
	return s
}

// opaque marks an integer variable that received a value the engine does not
// follow (a call result other than the tracked reads, len of a slice
// expression, …): comparisons over it are not interpreted.
func (fl *c16Flow) opaque(s kit.S, o types.Object) kit.S {
	return s.Set("q:opq:"+kit.VarToken(o), "1")
}

// observerUnderstood: the Len()/Bytes() call feeds a construct the rule
// interprets: a comparison with a constant, the defining assignment of a
// followed alias, len(...) or an index test inside an atom.
func (fl *c16Flow) observerUnderstood(call *ast.CallExpr) bool {
	rd := fl.rd
	par := fl.c.P.Parent(rd.f.File, call)
	for {
		if p, ok := par.(*ast.ParenExpr); ok {
			par = fl.c.P.Parent(rd.f.File, p)
			continue
		}
		break
	}
	switch p := par.(type) {
	case *ast.BinaryExpr:
		_, _, ok := fl.atom(p)
		return ok
	case *ast.AssignStmt:
		if len(p.Lhs) == 1 {
			if o := kit.ObjOf(rd.f.Info(), p.Lhs[0]); o != nil && rd.lbVars[o] {
				return true
			}
		}
	case *ast.IndexExpr:
		if be, ok := fl.c.P.Parent(rd.f.File, p).(*ast.BinaryExpr); ok {
			_, _, ok := fl.atom(be)
			return ok
		}
	case *ast.CallExpr:
		if bi, ok := kit.Callee(rd.f.Info(), p).(*types.Builtin); ok && bi.Name() == "len" {
			if be, ok := fl.c.P.Parent(rd.f.File, p).(*ast.BinaryExpr); ok {
				_, _, ok := fl.atom(be)
				return ok
			}
			return false
		}
		// argument of another call: that call is classified on its own
		for _, a := range p.Args {
			if ast.Unparen(a) == ast.Expr(call) {
				return true
			}
		}
	}
	return false
}

func c16IntVar(o types.Object) bool {
	v, ok := o.(*types.Var)
	if !ok || v.IsField() {
		return false
	}
	b, ok := v.Type().Underlying().(*types.Basic)
	return ok && b.Info()&types.IsInteger != 0
}

// decodeArg returns the argument of call that is a view of the caller's buffer.
func (fl *c16Flow) decodeArg(call *ast.CallExpr) ast.Expr {
	rd := fl.rd
	info := rd.f.Info()
	if _, ok := kit.Callee(info, call).(*types.Builtin); ok {
		return nil
	}
	if c16IfaceCall(rd.f, rd.recv, call, "Read") != nil || rd.loMethod(call) != "" {
		return nil
	}
	if tv, ok := info.Types[call.Fun]; ok && tv.IsType() {
		return nil
	}
	for _, a := range call.Args {
		if fl.isView(a) {
			return a
		}
	}
	return nil
}

func c16In01(k int64) bool { return k == 0 || k == 1 }

// isView: e is the caller's buffer, a slice expression of it, or a local
// variable every assignment of which is such a view.
func (fl *c16Flow) isView(e ast.Expr) bool {
	rd := fl.rd
	if kit.IsViewOf(rd.f.Info(), e, rd.buf) {
		return true
	}
	if id, ok := ast.Unparen(e).(*ast.Ident); ok {
		if o := kit.ObjOf(rd.f.Info(), id); o != nil && rd.viewVars[o] {
			return true
		}
	}
	return fl.aliasRooted(e) // a slice expression of such a variable
}

// viewBounds gives the bounds of a view of the caller's buffer as linear
// forms over the current values of variables; for an alias the bounds are
// those recorded at its assignment ("q:al:"), which are dropped as soon as a
// variable they mention changes.
func (fl *c16Flow) viewBounds(e ast.Expr, s kit.S) (lo, hi kit.Affine, ok bool) {
	rd := fl.rd
	if fl.aliasRooted(e) {
		return fl.aliasSliceBounds(e, s)
	}
	if id, isID := ast.Unparen(e).(*ast.Ident); isID {
		if o := kit.ObjOf(rd.f.Info(), id); o != nil && rd.viewVars[o] {
			v := s.Get("q:al:" + kit.VarToken(o))
			if v == "" {
				return lo, hi, false
			}
			parts := strings.SplitN(v, "|", 2)
			lo, ok1 := fl.tab[parts[0]]
			hi, ok2 := fl.tab[parts[1]]
			return lo, hi, ok1 && ok2
		}
	}
	return kit.SliceBounds(rd.f.Info(), e, rd.buf)
}

// judgeDelivery decides R1 (after a device read) or R3 (from leftover) for a
// call that decodes a view of the caller's buffer and whose count is returned.
func (fl *c16Flow) judgeDelivery(s kit.S, call *ast.CallExpr, arg ast.Expr) (rule string, v c16Verdict) {
	rd := fl.rd
	dlo, dhi, ok := fl.viewBounds(arg, s)
	if ok {
		for o := range rd.unsafe {
			if dlo.Mentions(o) || dhi.Mentions(o) {
				ok = false
			}
		}
	}
	if ok {
		dlo, dhi = fl.substEq(dlo, s), fl.substEq(dhi, s)
	}
	phaseDev := s.Get("q:phase") == "dev"
	rule = "R3"
	if phaseDev {
		rule = "R1"
	}
	if !ok {
		return rule, c16V("undec", "the bounds of the decoded slice %s are not linear in local variables", rd.f.Str(arg))
	}
	if k, isC := dlo.Const(); !isC {
		return rule, c16V("undec", "the decoded slice %s does not start at a constant offset", rd.f.Str(arg))
	} else if k != 0 {
		return rule, c16V("viol", "the decoded slice %s starts at %d: the first %d accumulated bytes of the frame are skipped", rd.f.Str(arg), k, k)
	}
	if phaseDev {
		return rule, fl.judgeAfterDevice(s, arg, dhi)
	}
	return rule, fl.judgeFromLeftover(s, arg, dhi)
}

func (fl *c16Flow) judgeAfterDevice(s kit.S, arg ast.Expr, dhi kit.Affine) c16Verdict {
	rd := fl.rd
	L, okL := fl.tab[s.Get("q:devL")]
	cTok := s.Get("q:devC")
	var end kit.Affine
	haveEnd := false
	if okL && s.Get("q:devL") != "" && strings.HasPrefix(cTok, "[") {
		end = fl.substEq(L.Add(kit.Affine{Terms: map[string]int64{"v" + cTok: 1}}), s)
		haveEnd = true
	}
	Ks := fl.terminators(s, "b")
	for i := range Ks {
		Ks[i] = fl.substEq(Ks[i], s)
	}
	saved := s.Get("q:saved")
	if strings.HasPrefix(saved, "lossy:") {
		return c16V("viol", "the bytes behind the terminator are not saved as they are: %s can drop or change bytes before they reach the leftover buffer, so the next call does not see exactly b[terminator+1 : end of read]", strings.TrimPrefix(saved, "lossy:"))
	}
	switch saved {
	case "stale":
		return c16V("undec", "a variable of the saved tail's bounds changes between the save and the return of %s", rd.f.Str(arg))
	case "":
		// nothing saved on this path: acceptable only when the tail is provably empty
		if s.Get("q:unk") != "" {
			if haveEnd {
				for _, K := range Ks {
					if d, isC := dhi.Sub(K).Const(); isC && c16In01(d) && fl.provesLE(s, end.Sub(K).AddK(-1), 0) {
						return c16V("ok", "no byte follows the terminator on this path")
					}
				}
			}
			return c16V("undec", "a frame (%s) is returned without a save on a path that passed a decision the rule does not interpret (%s)", rd.f.Str(arg), s.Get("q:unk"))
		}
		if haveEnd {
			for _, K := range Ks {
				if d, isC := dhi.Sub(K).Const(); isC && c16In01(d) {
					if fl.provesLE(s, end.Sub(K).AddK(-1), 0) {
						return c16V("ok", "no byte follows the terminator on this path (%s <= 0)", end.Sub(K).AddK(-1).String())
					}
				}
			}
			return c16V("viol", "a frame (%s) is returned after a device read without writing the bytes behind its terminator (up to b[%s]) into the leftover buffer: the start of the next frame is dropped whenever one read carries more than one frame", rd.f.Str(arg), end.String())
		}
		if s.Get("q:devC") == "_" {
			return c16V("viol", "a frame (%s) is returned after a device read whose byte count is discarded and nothing is saved to the leftover buffer", rd.f.Str(arg))
		}
		return c16V("undec", "a frame (%s) is returned without a save on this path and the extent of the device read is no longer known", rd.f.Str(arg))
	}
	parts := strings.SplitN(saved, "|", 2)
	slo, ok1 := fl.tab[parts[0]]
	shi, ok2 := fl.tab[parts[1]]
	if !ok1 || !ok2 {
		return c16V("undec", "saved tail bounds lost")
	}
	slo, shi = fl.substEq(slo, s), fl.substEq(shi, s)
	if !haveEnd {
		return c16V("undec", "the extent of the device read (start, count) is not known at the return of %s", rd.f.Str(arg))
	}
	if d, isC := shi.Sub(end).Const(); !isC {
		return c16V("undec", "cannot relate the end of the saved tail (%s) to the end of the device read (%s)", shi.String(), end.String())
	} else if d != 0 {
		return c16V("viol", "the saved tail ends at b[:%s] but the device read filled the buffer up to b[:%s] (%+d bytes)", shi.String(), end.String(), d)
	}
	if len(Ks) == 0 {
		return c16V("undec", "no `b[x] == 0` test on the path to the return of %s identifies the terminator", rd.f.Str(arg))
	}
	var bad []string
	for _, K := range Ks {
		d1, c1 := dhi.Sub(K).Const()
		d2, c2 := slo.Sub(K).Const()
		if !c1 || !c2 {
			continue
		}
		if c16In01(d1) && c16In01(d2) {
			if v, bad := fl.terminatorInRange(s, K, end, "b", "the end of the bytes just read"); bad {
				return v
			}
			return c16V("ok", "decoded b[0:%s], saved b[%s:%s], terminator at b[%s]", dhi.String(), slo.String(), shi.String(), K.String())
		}
		if !c16In01(d2) {
			bad = append(bad, fmt.Sprintf("the saved tail starts at b[%s], %+d from the terminator b[%s]: %s", slo.String(), d2, K.String(), c16LossText(d2)))
		} else {
			bad = append(bad, fmt.Sprintf("the decoded slice ends at b[:%s], %+d from the terminator b[%s]", dhi.String(), d1, K.String()))
		}
	}
	if len(bad) > 0 {
		return c16V("viol", "%s", bad[0])
	}
	return c16V("undec", "cannot relate decoded slice %s / saved tail b[%s:%s] to a terminator test", rd.f.Str(arg), slo.String(), shi.String())
}

// terminatorInRange checks that the index K of the byte tested against zero
// lies below end.  bad=false: proved (or nothing to say).
func (fl *c16Flow) terminatorInRange(s kit.S, K, end kit.Affine, what, endText string) (c16Verdict, bool) {
	target := K.Sub(end) // must be <= -1
	if fl.provesLE(s, target, -1) {
		return c16Verdict{}, false
	}
	// the tightest upper bound the path conditions give
	best, have := int64(0), false
	for _, b := range fl.bounds(s) {
		if b.NonZero || !b.Upper {
			if !b.NonZero {
				// D >= M with D = -target + k  =>  target <= k - M
				if k, ok := b.D.Add(target).Const(); ok {
					if !have || k-b.M < best {
						best, have = k-b.M, true
					}
				}
			}
			continue
		}
		if k, ok := b.D.Sub(target).Const(); ok {
			if !have || b.M-k < best {
				best, have = b.M-k, true
			}
		}
	}
	if have && best >= 0 && s.Get("q:unk") == "" {
		return c16V("viol", "the terminator test reads %s[%s], which can lie %d byte(s) at or beyond %s (%s): a stale byte is taken for the end of the frame", what, K.String(), best+1, endText, end.String()), true
	}
	return c16V("undec", "cannot establish that the tested index %s lies below %s (%s)", K.String(), endText, end.String()), true
}

func c16LossText(d int64) string {
	if d > 1 {
		return fmt.Sprintf("%d byte(s) of the next frame are lost", d-1)
	}
	return fmt.Sprintf("%d byte(s) of the delivered frame are delivered again", -d)
}

func (fl *c16Flow) judgeFromLeftover(s kit.S, arg ast.Expr, dhi kit.Affine) c16Verdict {
	rd := fl.rd
	mv := s.Get("q:mv")
	took := s.Get("q:took")
	if took == "" {
		took = s.Get("q:tookD")
	}
	var taken kit.Affine
	haveTaken := false
	if mv == "" && s.Get("q:cpB") != "" && s.Get("q:lounk") == "" {
		// copy(b[lo:], lb[slo:shi]) plus leftover.Next(n) (now or deferred)
		cp := strings.SplitN(s.Get("q:cpB"), "|", 3)
		dlo, okd := fl.tab[cp[0]]
		slo, oks := fl.tab[cp[1]]
		shi, okh := fl.tab[cp[2]]
		if !okd || !oks || !okh {
			return c16V("undec", "bounds of the copy out of the leftover bytes lost")
		}
		if k, isC := fl.substEq(slo, s).Const(); !isC || k != 0 {
			return c16V("undec", "the frame is copied from the middle of the leftover bytes")
		}
		if took == "" {
			return c16V("viol", "a frame (%s) is copied out of the leftover bytes and returned but never removed from the leftover buffer: the next call delivers it again", rd.f.Str(arg))
		}
		tk, okt := fl.tab[took]
		if !okt {
			return c16V("undec", "the number of bytes removed from the leftover buffer is not linear in local variables")
		}
		taken, haveTaken = fl.substEq(tk, s), true
		mv = fl.intern(dlo) + "|" + fl.intern(dlo.Add(shi.Sub(slo)))
	}
	if mv == "" {
		if s.Get("q:lounk") != "" {
			return c16V("undec", "a frame (%s) is returned before any device read and the leftover buffer is used in a way the rule does not model", rd.f.Str(arg))
		}
		return c16V("viol", "a frame (%s) is decoded from the caller's buffer before any device read although nothing was taken out of the leftover buffer", rd.f.Str(arg))
	}
	parts := strings.SplitN(mv, "|", 2)
	mlo, ok1 := fl.tab[parts[0]]
	mhi, ok2 := fl.tab[parts[1]]
	if !ok1 || !ok2 {
		return c16V("undec", "bounds of the leftover move lost")
	}
	mlo, mhi = fl.substEq(mlo, s), fl.substEq(mhi, s)
	if k, isC := mlo.Const(); !isC {
		return c16V("undec", "leftover bytes are read to a non-constant offset of the caller's buffer")
	} else if k != 0 {
		return c16V("viol", "leftover bytes are read to b[%d:] but the frame is decoded from b[0:]", k)
	}
	Ks := fl.terminators(s, "l")
	for i := range Ks {
		Ks[i] = fl.substEq(Ks[i], s)
	}
	if whole, isC := mhi.Sub(kit.AffLen(rd.buf)).Const(); isC && whole == 0 {
		if s.Get("q:lounk") != "" {
			return c16V("undec", "the whole leftover buffer is read and the buffer is then used in a way the rule does not model")
		}
		return c16V("viol", "every leftover byte is taken out (Read into the whole of b) but only the prefix %s is decoded and returned: the bytes behind the terminator are lost", rd.f.Str(arg))
	}
	if len(Ks) == 0 {
		return c16V("undec", "no `leftover[x] == 0` test on the path identifies the terminator of the frame served from the leftover buffer")
	}
	n := mhi.Sub(mlo) // bytes placed in b[0:]
	if !haveTaken {
		taken = n // leftover.Read removes what it places
	}
	var bad []string
	for _, K := range Ks {
		d1, c1 := dhi.Sub(K).Const()
		d2, c2 := taken.Sub(K).Const()
		d3, c3 := n.Sub(dhi).Const() // placed - decoded >= 0
		if !c1 || !c2 || !c3 {
			continue
		}
		switch {
		case c16In01(d1) && c16In01(d2) && d3 >= 0:
			lbLen := kit.Affine{}
			for o := range rd.lbVars {
				lbLen = kit.AffLen(o)
			}
			if len(rd.lbVars) == 1 {
				if v, bad := fl.terminatorInRange(s, K, lbLen, "leftover", "the end of the leftover bytes"); bad {
					return v
				}
			}
			return c16V("ok", "took leftover[0:%s] into b[0:], decoded b[0:%s], terminator at leftover[%s]", n.String(), dhi.String(), K.String())
		case !c16In01(d2):
			bad = append(bad, fmt.Sprintf("%s bytes are taken out of the leftover buffer but the terminator is at index %s (%+d): %s", taken.String(), K.String(), d2, c16TakeText(d2)))
		case !c16In01(d1):
			bad = append(bad, fmt.Sprintf("the decoded slice ends at b[:%s], %+d from the terminator index %s", dhi.String(), d1, K.String()))
		default:
			bad = append(bad, fmt.Sprintf("b[0:%s] is decoded but only %s bytes were taken out of the leftover buffer", dhi.String(), n.String()))
		}
	}
	if len(bad) > 0 {
		return c16V("viol", "%s", bad[0])
	}
	return c16V("undec", "cannot relate the bytes taken (%s) / decoded (%s) to a terminator test", n.String(), dhi.String())
}

func c16TakeText(d int64) string {
	if d > 1 {
		return fmt.Sprintf("%d byte(s) of the following frame are removed and never delivered", d-1)
	}
	return fmt.Sprintf("the last %d byte(s) of the frame stay behind and the frame is delivered truncated", -d)
}

// judgeFirstRead decides R2 at a device read reached before any other device read.
func (fl *c16Flow) judgeFirstRead(s kit.S, call *ast.CallExpr, L kit.Affine, okL bool) c16Verdict {
	rd := fl.rd
	if _, hi, _ := fl.leftoverLen(s); hi == 0 {
		return c16V("ok", "leftover buffer empty on this path")
	}
	if s.Get("q:mv2") != "" {
		return c16V("viol", "leftover bytes are read into b[0:] twice before the device read (%s): the second read overwrites what the first took out of the leftover buffer", s.Get("q:mv2"))
	}
	mv := s.Get("q:mv")
	if mv != "" && s.Get("q:lounk") != "" {
		return c16V("undec", "the leftover buffer is used in a way the rule does not model before the device read (%s)", s.Get("q:lounk"))
	}
	if mv == "" {
		switch {
		case s.Get("q:lounk") != "":
			return c16V("undec", "the leftover buffer is used in a way the rule does not model before the device read (%s)", s.Get("q:lounk"))
		case s.Get("q:unk") != "" || s.Get("q:lseen") != "":
			return c16V("undec", "no move of the leftover bytes on a path to the device read that passed a decision the rule does not interpret (%s%s)", s.Get("q:unk"), s.Get("q:lseen"))
		case s.Get("q:cp") != "":
			return c16V("viol", "leftover bytes are copied into the caller's buffer (%s) but never removed from the leftover buffer: the next call sees the same bytes again", s.Get("q:cp"))
		case s.Get("q:lowo") != "":
			return c16V("viol", "the leftover bytes are written to a bytes.NewBuffer object that is never read (%s): Write appends behind the wrapped slice, nothing reaches b[0:], and the leftover buffer is not drained before the device read", s.Get("q:lowo"))
		}
		if callers := fl.inPackageCallers(); callers != "" {
			return c16V("undec", "%s reads the device without looking at the leftover buffer, but it is called from %s: whether the leftover bytes were served or moved before is decided there (a split reader is not followed across functions)", rd.f.Name, callers)
		}
		return c16V("viol", "the device is read while bytes may remain in the leftover buffer: they are neither returned as a frame nor moved into the caller's buffer on this path")
	}
	parts := strings.SplitN(mv, "|", 2)
	mlo, ok1 := fl.tab[parts[0]]
	if !ok1 {
		return c16V("undec", "bounds of the leftover move lost")
	}
	mlo = fl.substEq(mlo, s)
	if k, isC := mlo.Const(); !isC {
		return c16V("undec", "leftover bytes are moved to a non-constant offset")
	} else if k != 0 {
		return c16V("viol", "leftover bytes are moved to b[%d:], frames are decoded from b[0:]", k)
	}
	if !okL {
		return c16V("undec", "the start of the device read %s is not linear in local variables", rd.f.Str(call))
	}
	cnt := s.Get("q:mvC")
	if !strings.HasPrefix(cnt, "[") {
		if k, isC := L.Const(); isC {
			return c16V("viol", "the number of leftover bytes moved into b is discarded and the device read starts at b[%d:]: it overwrites them", k)
		}
		return c16V("undec", "the number of leftover bytes moved into b is discarded")
	}
	want := kit.Affine{Terms: map[string]int64{"v" + cnt: 1}}
	if d, isC := L.Sub(want).Const(); isC {
		if d == 0 {
			return c16V("ok", "leftover.Read moved %s bytes into b[0:], device read starts at b[%s:]", want.String(), L.String())
		}
		return c16V("viol", "leftover.Read moved %s bytes into b[0:] but the device read starts at b[%s:] (%+d)", want.String(), L.String(), d)
	}
	if k, isC := L.Const(); isC {
		return c16V("viol", "leftover.Read moved %s bytes into b[0:] but the device read starts at b[%d:] and overwrites them", want.String(), k)
	}
	return c16V("undec", "cannot relate the start of the device read (%s) to the %s moved bytes", L.String(), want.String())
}

// judgeReRead decides R4 at a device read reached after another device read.
func (fl *c16Flow) judgeReRead(s kit.S, call *ast.CallExpr, Lsyn kit.Affine, okL bool) c16Verdict {
	rd := fl.rd
	if !okL {
		return c16V("undec", "the start of the device read %s is not linear in local variables", rd.f.Str(call))
	}
	// the read must start exactly behind the bytes accumulated so far
	if pk := s.Get("q:pL"); pk != "" && strings.HasPrefix(s.Get("q:devC"), "[") {
		if pL, ok := fl.tab[pk]; ok {
			want := pL.Add(kit.Affine{Terms: map[string]int64{"v" + s.Get("q:devC"): 1}})
			diff := fl.substEq(Lsyn, s).Sub(fl.substEq(want, s))
			if d, isC := diff.Const(); isC {
				if d != 0 {
					return c16V("viol", "the next device read starts at b[%s:], %+d from the end of the bytes accumulated so far: bytes of a frame that spans two reads are overwritten or skipped", Lsyn.String(), d)
				}
			} else if fl.provesLE(s, diff, -1) || fl.provesLE(s, diff.Neg(), -1) {
				return c16V("viol", "the next device read starts at b[%s:] although the previous read added %s bytes: the count is not added to the position, the partial frame is overwritten", Lsyn.String(), strings.Trim(s.Get("q:devC"), "[]"))
			} else {
				return c16V("undec", "cannot relate the start of the next device read (%s) to the previous start plus count", Lsyn.String())
			}
		}
	} else {
		return c16V("undec", "the position or count of the previous device read is not followed up to the next read")
	}
	target := Lsyn.Sub(kit.AffLen(rd.buf)) // must be <= -1
	if fl.provesLE(s, target, -1) {
		return c16V("ok", "%s < len(%s) established on the way back to the read", Lsyn.String(), rd.buf.Name())
	}
	for _, b := range fl.bounds(s) {
		if b.ImpliesNE(target) {
			return c16V("ok", "%s != len(%s) established (and Read never returns more than len(p))", Lsyn.String(), rd.buf.Name())
		}
	}
	if s.Get("q:unk") != "" {
		return c16V("undec", "%s < len(%s) is not established on a path back to the device read that passed a decision the rule does not interpret (%s)", Lsyn.String(), rd.buf.Name(), s.Get("q:unk"))
	}
	return c16V("viol", "the loop calls the device again with b[%s:] without having left when %s reached len(%s): with a full buffer Read returns 0 for ever and no later frame is delivered", Lsyn.String(), Lsyn.String(), rd.buf.Name())
}

func (fl *c16Flow) run() {
	rd := fl.rd
	f := rd.f
	info := f.Info()
	st := &kit.Std{F: f}
	fl.st = st
	st.Eval.Atom = fl.atom

	constructOfReturn := func(r *ast.ReturnStmt) string { return retKey(f, r) }

	st.OnCall = func(call *ast.CallExpr, n ast.Node, s kit.S) []kit.S {
		// device read
		if rd.isDevRead(call) && len(call.Args) == 1 && fl.isView(call.Args[0]) {
			lo, hi, ok := fl.viewBounds(call.Args[0], s)
			if ok {
				for o := range rd.unsafe {
					if lo.Mentions(o) {
						ok = false
					}
				}
				if d, isC := hi.Sub(kit.AffLen(rd.buf)).Const(); !isC || d != 0 {
					ok = false // reads into a bounded window: not modelled
				}
			}
			if s.Get("q:phase") != "dev" {
				site := fl.ss.at("R2", call, "first device read", "before the device is read the leftover bytes are known absent or were moved into b[0:] (and drained) and the read starts right behind them")
				site.add(fl.judgeFirstRead(s, call, fl.substEq(lo, s), ok))
				for _, flag := range fl.startFlags(call) {
					fsite := fl.ss.at("R6", call, "packet-start flag "+flag.Name(), "at the first device read the flag that makes the scan skip leading delimiters is true iff some byte moved from the leftover buffer is non-zero")
					fsite.add(fl.judgeStartFlag(s, flag, fl.substEq(lo, s), ok))
				}
			} else {
				site := fl.ss.at("R4", call, "repeated device read", "the device is read again into b[cur:] only after cur < len(b) was established")
				site.add(fl.judgeReRead(s, call, lo, ok))
			}
			s = s.Set("q:phase", "dev").Del("q:saved").Del("q:devC").Del("q:devL").Del("q:unk")
			s = fl.dropPrefix(s, "a:z:b:")
			s = fl.dropPrefix(s, "q:cnt:")
			s = fl.invalidateTok(s, c16Ghost).Del("q:pL")
			if ok {
				s = s.Set("q:devL", fl.intern(lo))
				// name the start of this read: G := value of lo; when lo is a single
				// variable, that variable equals G until it is assigned
				g := kit.Affine{Terms: map[string]int64{"v" + c16Ghost: 1}}
				if vt := lo.VarTerms(); len(vt) == 1 && len(lo.Terms) == 1 && lo.K == 0 && lo.Terms[vt[0]] == 1 {
					s = s.Set("q:eq:"+strings.TrimPrefix(vt[0], "v"), fl.intern(g))
					s = s.Set("q:pL", fl.intern(g))
				} else if k, isC := fl.substEq(lo, s).Const(); isC {
					s = s.Set("q:pL", fl.intern(kit.AffConst(k)))
				}
			}
			return []kit.S{s}
		}
		// methods of the leftover buffer
		if m := rd.loMethod(call); m != "" {
			switch m {
			case "Grow", "Available", "Cap":
				return nil
			case "Len", "Bytes":
				if fl.observerUnderstood(call) {
					return nil
				}
				return []kit.S{s.Set("q:lseen", "leftover."+m+" at "+f.At(call))}
			case "String":
				return []kit.S{s.Set("q:lseen", "leftover."+m+" at "+f.At(call))}
			case "Read":
				if len(call.Args) == 1 && fl.isView(call.Args[0]) {
					lo, hi, ok := fl.viewBounds(call.Args[0], s)
					if ok {
						for o := range rd.unsafe {
							if lo.Mentions(o) || hi.Mentions(o) {
								ok = false
							}
						}
					}
					s = fl.dropPrefix(fl.dropPrefix(s, "a:z:b:"), "a:len:")
					if ok && s.Get("q:phase") != "dev" && s.Get("q:mv") != "" {
						// a second move: definite loss when both land at b[0:]
						prev := strings.SplitN(s.Get("q:mv"), "|", 2)
						p0, okp := fl.tab[prev[0]]
						k1, c1 := fl.substEq(lo, s).Const()
						k0, c0 := fl.substEq(p0, s).Const()
						if okp && c1 && c0 && k1 == 0 && k0 == 0 {
							return []kit.S{s.Set("q:mv2", "second read at "+f.At(call))}
						}
					}
					if !ok || s.Get("q:phase") == "dev" || s.Get("q:mv") != "" {
						return []kit.S{s.Set("q:lounk", "leftover.Read at "+f.At(call))}
					}
					return []kit.S{s.Set("q:mv", fl.intern(lo)+"|"+fl.intern(hi)).Del("q:mvC")}
				}
				return []kit.S{s.Set("q:lounk", "leftover.Read into something else than the caller's buffer at "+f.At(call))}
			case "Write":
				s = fl.dropPrefix(fl.dropPrefix(s, "a:z:l:"), "a:len:")
				if len(call.Args) == 1 && s.Get("q:phase") == "dev" {
					if why := rd.lossy(call.Args[0]); why != "" {
						return []kit.S{s.Set("q:saved", "lossy:"+why+" at "+f.At(call))}
					}
				}
				if len(call.Args) == 1 {
					call = &ast.CallExpr{Fun: call.Fun, Lparen: call.Lparen, Args: []ast.Expr{rd.preserving(call.Args[0])}, Rparen: call.Rparen}
				}
				if len(call.Args) == 1 && fl.isView(call.Args[0]) && s.Get("q:phase") == "dev" {
					lo, hi, ok := fl.viewBounds(call.Args[0], s)
					if ok {
						for o := range rd.unsafe {
							if lo.Mentions(o) || hi.Mentions(o) {
								ok = false
							}
						}
					}
					if !ok || s.Get("q:saved") != "" {
						return []kit.S{s.Set("q:saved", "stale")}
					}
					return []kit.S{s.Set("q:saved", fl.intern(lo)+"|"+fl.intern(hi))}
				}
				if s.Get("q:phase") == "dev" {
					return []kit.S{s.Set("q:saved", "stale")}
				}
				return []kit.S{s.Set("q:lounk", "leftover.Write at "+f.At(call))}
			case "Next":
				// pure removal when the returned bytes are not used
				if es, ok := n.(*ast.ExprStmt); ok && ast.Unparen(es.X) == ast.Expr(call) && len(call.Args) == 1 && s.Get("q:phase") != "dev" && s.Get("q:took") == "" {
					s = fl.dropPrefix(s, "a:len:")
					if cnt, ok := rd.aff(call.Args[0]); ok {
						return []kit.S{s.Set("q:took", fl.intern(cnt))}
					}
					return []kit.S{s.Set("q:took", "?")}
				}
				s = fl.dropPrefix(fl.dropPrefix(s, "a:z:l:"), "a:len:")
				return []kit.S{s.Set("q:lounk", "leftover."+m+" at "+f.At(call))}
			default:
				s = fl.dropPrefix(fl.dropPrefix(s, "a:z:l:"), "a:len:")
				return []kit.S{s.Set("q:lounk", "leftover."+m+" at "+f.At(call))}
			}
		}
		// a search for the delimiter moves nothing; its result is bound at the assignment
		if fl.indexByteZero(call) != "" {
			return nil
		}
		// other calls that receive leftover bytes
		touches := false
		for _, a := range call.Args {
			if rd.mentionsLeftoverShallow(a) {
				touches = true
			}
		}
		if sel, ok := ast.Unparen(call.Fun).(*ast.SelectorExpr); ok && !touches && rd.mentionsLeftover(sel.X) {
			touches = true
		}
		if !touches {
			// a function of this package that works on the leftover buffer itself
			// (through the receiver) is not followed: what it served, moved or
			// saved is unknown here
			if h := f.CalleeFunc(call); h != nil && h != f && !fl.pureHelper(h) && fl.usesLeftover(h, 0) {
				return []kit.S{s.Set("q:lounk", f.Str(call.Fun)+" at "+f.At(call)+" works on the leftover buffer")}
			}
			return nil
		}
		if fl.pureHelper(f.CalleeFunc(call)) {
			return nil // evaluated inline: it only reads the bytes it is given
		}
		if bi, ok := kit.Callee(info, call).(*types.Builtin); ok {
			switch bi.Name() {
			case "len", "cap":
				return nil
			case "copy":
				if len(call.Args) == 2 && fl.isView(call.Args[0]) {
					s = s.Set("q:cp", "copy at "+f.At(call))
					// copy(<view of b>, lb[lo:hi]): remember where the bytes come from and go to
					if dlo, _, ok := fl.viewBounds(call.Args[0], s); ok {
						for o := range rd.lbVars {
							if slo, shi, ok2 := kit.SliceBounds(info, call.Args[1], o); ok2 {
								s = s.Set("q:cpB", fl.intern(dlo)+"|"+fl.intern(slo)+"|"+fl.intern(shi))
							}
						}
					}
					return []kit.S{s}
				}
			}
			return []kit.S{s.Set("q:lounk", bi.Name()+" at "+f.At(call))}
		}
		if fn, ok := kit.Callee(info, call).(*types.Func); ok && strings.HasPrefix(kit.QualName(fn), "bytes.(*Buffer).Write") {
			if sel, ok := ast.Unparen(call.Fun).(*ast.SelectorExpr); ok && fl.isWriteOnly(sel.X) {
				return []kit.S{s.Set("q:lowo", f.Str(call)+" at "+f.At(call))}
			}
		}
		// logging the bytes moves nothing
		if q := kit.QualName(kit.Callee(info, call)); strings.HasPrefix(q, "log.") || strings.HasPrefix(q, "fmt.") {
			return nil
		}
		return []kit.S{s.Set("q:lounk", f.Str(call.Fun)+" at "+f.At(call))}
	}

	st.OnNode = func(n ast.Node, s kit.S) []kit.S {
		switch y := n.(type) {
		case *ast.AssignStmt:
			// new values first (they read the pre-state), then invalidation
			type upd struct {
				o   types.Object
				val kit.Affine
				ok  bool
				opq bool
			}
			trackedRead := false
			if len(y.Rhs) == 1 {
				if call, ok := ast.Unparen(y.Rhs[0]).(*ast.CallExpr); ok {
					trackedRead = rd.isDevRead(call) || rd.loMethod(call) == "Read"
				}
			}
			var ups []upd
			for i, l := range y.Lhs {
				o := kit.ObjOf(info, l)
				if o == nil {
					continue
				}
				u := upd{o: o}
				if c16IntVar(o) {
					// a value the engine does not follow makes the variable opaque
					u.opq = s.Get("q:opq:"+kit.VarToken(o)) != "" || !(trackedRead && i == 0)
				}
				if c16IntVar(o) && len(y.Lhs) == len(y.Rhs) {
					switch y.Tok {
					case token.ASSIGN, token.DEFINE:
						u.val, u.ok = fl.value(y.Rhs[i], s)
						u.opq = !u.ok && !(trackedRead && i == 0)
					case token.ADD_ASSIGN, token.SUB_ASSIGN:
						a, ok1 := fl.value(l, s)
						b, ok2 := fl.value(y.Rhs[i], s)
						u.opq = s.Get("q:opq:"+kit.VarToken(o)) != "" || !ok2
						if ok1 && ok2 && !a.Mentions(o) {
							u.ok = true
							if y.Tok == token.ADD_ASSIGN {
								u.val = a.Add(b)
							} else {
								u.val = a.Sub(b)
							}
						}
					}
				}
				// an integer handed back by a helper that was evaluated inline
				if c16IntVar(o) && len(y.Rhs) == 1 && !u.ok {
					if call, isCall := ast.Unparen(y.Rhs[0]).(*ast.CallExpr); isCall && fl.pureHelper(f.CalleeFunc(call)) && (len(y.Lhs) > 1 || i == 0) {
						if v, okv := fl.tab[s.Get(fmt.Sprintf("q:ret:%d", i))]; okv && s.Get(fmt.Sprintf("q:ret:%d", i)) != "" {
							u.val, u.ok, u.opq = v, true, false
						}
					}
				}
				ups = append(ups, u)
			}
			s = fl.dropPrefix(s, "q:ret:")
			for _, u := range ups {
				if c16IntVar(u.o) {
					s = fl.assignInt(s, u.o, u.val, u.ok)
					if u.opq {
						s = fl.opaque(s, u.o)
					}
				} else {
					s = fl.invalidate(s, u.o)
				}
			}
			// aliases of views of the caller's buffer
			if len(y.Lhs) == len(y.Rhs) {
				for i, l := range y.Lhs {
					if o := kit.ObjOf(info, l); o != nil && rd.viewVars[o] {
						if lo, hi, ok := kit.SliceBounds(info, y.Rhs[i], rd.buf); ok {
							s = s.Set("q:al:"+kit.VarToken(o), fl.intern(lo)+"|"+fl.intern(hi))
						}
					}
				}
			}
			// bind the count results of the calls the rules follow
			if len(y.Rhs) == 1 {
				if call, ok := ast.Unparen(y.Rhs[0]).(*ast.CallExpr); ok {
					first := "_"
					if id, ok := ast.Unparen(y.Lhs[0]).(*ast.Ident); ok && id.Name != "_" {
						if o := kit.ObjOf(info, id); o != nil && !rd.unsafe[o] {
							first = kit.VarToken(o)
						}
					}
					switch {
					case rd.isDevRead(call):
						s = s.Set("q:devC", first)
						if len(y.Lhs) == 2 {
							if eo := kit.ObjOf(info, y.Lhs[1]); eo != nil {
								s = s.Set("q:devE", kit.VarToken(eo))
							}
						}
					case rd.loMethod(call) == "Read" && s.Get("q:mv") != "":
						s = s.Set("q:mvC", first)
					default:
						if arg := fl.decodeArg(call); arg != nil && first != "_" {
							// judged when the count is returned (a save / a removal from the
							// leftover buffer may follow the decode)
							idx := -1
							for i, d := range fl.decodes {
								if d.call == call {
									idx = i
								}
							}
							if idx < 0 {
								fl.decodes = append(fl.decodes, c16Decode{call, arg})
								idx = len(fl.decodes) - 1
							}
							s = s.Set("q:cnt:"+first, fmt.Sprintf("%d", idx))
						}
					}
				}
			}
		case *ast.DeferStmt:
			if rd.loMethod(y.Call) == "Next" && len(y.Call.Args) == 1 && s.Get("q:phase") != "dev" {
				if cnt, ok := rd.aff(y.Call.Args[0]); ok {
					s = s.Set("q:tookD", fl.intern(cnt))
				} else {
					s = s.Set("q:tookD", "?")
				}
			} else if rd.mentionsLeftover(y.Call) {
				s = s.Set("q:lounk", "deferred "+f.Str(y.Call)+" at "+f.At(y))
			}
		case *ast.ExprStmt:
			if call, ok := ast.Unparen(y.X).(*ast.CallExpr); ok {
				if rd.isDevRead(call) {
					s = s.Set("q:devC", "_")
				}
			}
		case *ast.IncDecStmt:
			if o := kit.ObjOf(info, y.X); o != nil {
				if cl, ok := fl.canon[o]; ok && s.Get(cl.rz) == "1" {
					if s.Get("a:z:"+cl.region+":"+fl.intern(cl.lo.Add(kit.AffVar(o)))) != "T" {
						s = s.Set(cl.rz, "0")
					}
				}
				was := s.Get("q:opq:"+kit.VarToken(o)) != ""
				s = fl.invalidate(s, o)
				if was {
					s = fl.opaque(s, o)
				}
			}
		case *ast.ValueSpec:
			for i, nm := range y.Names {
				o := info.Defs[nm]
				if o == nil {
					continue
				}
				if c16IntVar(o) {
					switch {
					case len(y.Values) == 0:
						s = fl.assignInt(s, o, kit.AffConst(0), true)
					case len(y.Values) == len(y.Names):
						v, ok := fl.value(y.Values[i], s)
						s = fl.assignInt(s, o, v, ok)
						if !ok {
							s = fl.opaque(s, o)
						}
					default:
						s = fl.opaque(fl.invalidate(s, o), o)
					}
				} else {
					s = fl.invalidate(s, o)
				}
			}
		case *ast.Ident:
			s = fl.invalidate(s, kit.ObjOf(info, y))
		case *ast.ReturnStmt:
			if st.Cur() != f {
				// an inlined helper hands integers back: remember them as linear forms
				for i, res := range y.Results {
					if !c16IsIntExpr(info, res) {
						continue
					}
					// (not substituted: what the state knows about the helper's locals is
					// dropped when it returns, the facts stated over them stay)
					if v, ok := fl.rd.aff(fl.rw(res)); ok {
						s = s.Set(fmt.Sprintf("q:ret:%d", i), fl.intern(v))
					} else {
						s = s.Del(fmt.Sprintf("q:ret:%d", i))
					}
				}
				return []kit.S{s}
			}
			fl.onReturn(y, s, constructOfReturn(y))
		}
		if as, ok := n.(*ast.AssignStmt); ok {
			if out, ok := fl.indexByteAssign(s, as); ok {
				return out
			}
		}
		if as, ok := n.(*ast.AssignStmt); ok && len(as.Lhs) == 1 && len(as.Rhs) == 1 && (as.Tok == token.ASSIGN || as.Tok == token.DEFINE) {
			if out, ok := fl.evalBoolAssign(s, as.Lhs[0], as.Rhs[0]); ok {
				for i := range out {
					out[i] = fl.noteFlagEvidence(out[i], as.Lhs[0])
				}
				return out
			}
		}
		if as, ok := n.(*ast.AssignStmt); ok {
			for _, l := range as.Lhs {
				s = fl.noteFlagEvidence(s, l)
			}
		}
		return []kit.S{s}
	}

	st.ShouldInline = func(cf *kit.Func, call *ast.CallExpr) bool { return fl.pureHelper(cf) }
	st.OnBranch = func(br kit.Branch, s kit.S) (t, fs []kit.S, handled bool) {
		if br.Kind != kit.BrRange {
			return nil, nil, false
		}
		cur := st.Cur()
		synthetic := fl.c.P.Parent(cur.File, br.Range) == nil // a canonical counting loop offered as a range
		ts := s
		ko := kit.ObjOf(info, br.Range.Key)
		if br.Range.Value != nil {
			if vo := kit.ObjOf(info, br.Range.Value); vo != nil && fl.rangeElem(vo) == nil {
				if fl.elemVars == nil {
					fl.elemVars = map[types.Object]bool{}
				}
				fl.elemVars[vo] = true
			}
		}
		// what the loop runs over: a view of the caller's buffer or the leftover bytes
		var n, lo kit.Affine
		region, known := "", false
		x := st.Resolve(br.Range.X)
		if fl.isView(x) {
			if l0, hi, ok := fl.viewBounds(x, s); ok {
				n, lo, region, known = hi.Sub(l0), l0, "b", true
			}
		} else if o := kit.ObjOf(info, x); o != nil && rd.lbVars[o] {
			n, region, known = kit.AffLen(o), "l", true
		} else if call, ok := ast.Unparen(x).(*ast.CallExpr); ok && rd.loMethod(call) == "Bytes" {
			region, known = "l", true // length not named: no bound fact, but an interpreted decision
		}
		fsOut := s
		if known && ko != nil && c16IntVar(ko) && !rd.unsafe[ko] {
			// "every element visited so far was zero": kept while each finished iteration
			// established <region>[lo+key] == 0 (checked here for range loops, at the
			// post statement for counting loops)
			rz := fmt.Sprintf("q:rz:%d", br.Range.Body.Pos())
			in := fmt.Sprintf("q:in:%d", br.Range.Body.Pos())
			zk := "a:z:" + region + ":" + fl.intern(lo.Add(kit.AffVar(ko)))
			if synthetic {
				fl.canon[ko] = c16CanonLoop{rz: rz, region: region, lo: lo}
				if !s.Has(rz) {
					ts = ts.Set(rz, "1")
					fsOut = fsOut.Set(rz, "1")
				}
			} else {
				switch {
				case !s.Has(in):
					ts = ts.Set(rz, "1").Set(in, "1")
					fsOut = fsOut.Set(rz, "1")
				case s.Get(zk) != "T":
					ts = ts.Set(rz, "0")
					fsOut = fsOut.Set(rz, "0")
				}
			}
			if fsOut.Get(rz) == "1" {
				if region == "l" {
					fsOut = fsOut.Set("q:exhL", "1")
				} else if k, isC := fl.substEq(lo, s).Const(); isC && k == 0 {
					fsOut = fsOut.Set("q:exh", fl.intern(fl.substEq(n, s)))
				}
			}
			fsOut = fsOut.Del(rz).Del(in)
		}
		if !synthetic {
			// every iteration re-binds key and value
			if br.Range.Key != nil {
				ts = fl.invalidate(ts, ko)
			}
			if br.Range.Value != nil {
				ts = fl.invalidate(ts, kit.ObjOf(info, br.Range.Value))
			}
		}
		if known {
			if ko != nil && c16IntVar(ko) && !rd.unsafe[ko] {
				ts = ts.Set("a:c:"+c16OpNames[token.GEQ]+":"+fl.intern(kit.AffVar(ko)), "T") // a range key is never negative
			}
			if ko != nil && c16IntVar(ko) && !rd.unsafe[ko] && len(n.Terms)+int(c16Abs(n.K)) > 0 {
				ts = ts.Set("a:c:lt:"+fl.intern(kit.AffVar(ko).Sub(n)), "T")
			}
			return []kit.S{ts}, []kit.S{fsOut}, true
		}
		if synthetic {
			return nil, nil, false // decided as the comparison it is
		}
		why := "range at " + cur.At(br.Range)
		return []kit.S{ts.Set("q:unk", why)}, []kit.S{fsOut.Set("q:unk", why)}, true
	}
	st.Eval.Consistent = func(s kit.S) bool {
		_, _, feasible := fl.leftoverLen(s)
		return feasible && fl.intAtomsConsistent(s)
	}
	loops := fl.scanLoops()
	cl := st.Client()
	innerCond, innerOther := cl.Cond, cl.Other
	mark := func(states []kit.S, why string) []kit.S {
		out := make([]kit.S, len(states))
		for i, x := range states {
			out[i] = x.Set("q:unk", why)
		}
		return out
	}
	cl.Cond = func(cond ast.Expr, s kit.S) (t, fs []kit.S) {
		t, fs = innerCond(cond, s)
		if fl.condHasVarIndexedTest(cond) {
			for i := range t {
				t[i] = t[i].Set("q:scan", "a test of b at a variable index took part")
			}
			for i := range fs {
				fs[i] = fs[i].Set("q:scan", "a test of b at a variable index took part")
			}
		}
		for _, l := range loops {
			if l.fs.Cond == cond {
				for i := range fs {
					fs[i] = fs[i].Set("q:exh", fl.intern(fl.substEq(l.x, fs[i])))
				}
			}
		}
		if !fl.leafKnown(cond, s) {
			why := "`" + f.Str(cond) + "` at " + f.At(cond)
			return mark(t, why), mark(fs, why)
		}
		return t, fs
	}
	cl.Other = func(br kit.Branch, s kit.S) (t, fs []kit.S) {
		t, fs = innerOther(br, s) // range decisions are taken by st.OnBranch (below)
		if len(t) > 0 && len(fs) > 0 && br.Kind != kit.BrRange {
			return mark(t, "switch/select"), mark(fs, "switch/select")
		}
		return t, fs
	}
	res := f.Prog.Graph(f).Run(kit.NewS(), cl)
	if res.Overflow {
		fl.c.Fatalf("C16: state overflow in %s", f.Name)
	}
	fl.c.Note("C16 reader %s: %d abstract states visited", f.Name, res.Visited)
}

func (fl *c16Flow) onReturn(r *ast.ReturnStmt, s kit.S, key string) {
	rd := fl.rd
	f := rd.f
	info := f.Info()
	if len(r.Results) == 0 {
		return
	}
	// non-delivering returns: count is the constant 0, or the error is known non-nil
	if len(r.Results) >= 2 {
		k, isC := kit.ConstInt(info, r.Results[0])
		if (isC && k == 0) || fl.st.ReturnsNil(r, s) == "nonnil" {
			fl.onGiveUp(r, s, key)
			return
		}
	}
	oblR1 := "a frame returned after a device read: decoded slice b[0:terminator(+1)], bytes behind the terminator up to the end of the read saved in the leftover buffer"
	oblR3 := "a frame served from the leftover buffer takes exactly the prefix ending at its terminator into b[0:] and decodes no more than it took"
	emit := func(rule string, v c16Verdict) {
		obl, what := oblR3, "frame return from leftover "
		if rule == "R1" {
			obl, what = oblR1, "frame return after device read "
		}
		fl.ss.at(rule, r, what+key, obl).add(v)
	}
	if len(r.Results) == 1 {
		if call, ok := ast.Unparen(r.Results[0]).(*ast.CallExpr); ok {
			if arg := fl.decodeArg(call); arg != nil {
				emit(fl.judgeDelivery(s, call, arg))
				return
			}
		}
	}
	if o := kit.ObjOf(info, r.Results[0]); o != nil {
		if v := s.Get("q:cnt:" + kit.VarToken(o)); v != "" {
			var idx int
			fmt.Sscanf(v, "%d", &idx)
			emit(fl.judgeDelivery(s, fl.decodes[idx].call, fl.decodes[idx].arg))
			return
		}
	}
	// a stage that only serves the leftover buffer hands the moved count to its caller
	if rd.dev == nil && s.Get("q:phase") != "dev" {
		if o := kit.ObjOf(info, r.Results[0]); o != nil && s.Get("q:mvC") == kit.VarToken(o) {
			return
		}
	}
	rule := "R3"
	if s.Get("q:phase") == "dev" {
		rule = "R1"
	}
	emit(rule, c16V("undec", "`%s` may hand bytes to the caller but its count is not the result of decoding a slice of the caller's buffer", f.Str(r)))
}

// onGiveUp (R4): a return that hands nothing to the caller after the device
// delivered bytes without error abandons the partial frame held in b.  It is
// justified only by a full buffer (position >= len(b)) or by a lower bound of
// the position against a configuration field of the receiver.
func (fl *c16Flow) onGiveUp(r *ast.ReturnStmt, s kit.S, key string) {
	rd := fl.rd
	f := rd.f
	if s.Get("q:phase") != "dev" {
		fl.onStuckExit(r, s, key)
		return
	}
	// the device's own error is passed on
	if de := s.Get("q:devE"); de != "" {
		for _, res := range r.Results {
			if o := kit.ObjOf(f.Info(), res); o != nil && kit.VarToken(o) == de {
				return
			}
		}
	}
	site := fl.ss.at("R4", r, "give-up return "+key, "after a device read without error the reader gives up only when the position reached len(b) or exceeds a configured limit")
	pk, cTok := s.Get("q:pL"), s.Get("q:devC")
	if s.Get("q:saved") != "" {
		site.add(c16V("undec", "%s gives up after bytes were saved to the leftover buffer: not modelled", f.Str(r)))
		return
	}
	pL, ok := fl.tab[pk]
	if !ok || !strings.HasPrefix(cTok, "[") {
		site.add(c16V("undec", "%s: the extent of the data held in b is not followed", f.Str(r)))
		return
	}
	end := fl.substEq(pL.Add(kit.Affine{Terms: map[string]int64{"v" + cTok: 1}}), s)
	lenTerm := "len" + kit.VarToken(rd.buf)
	for _, b := range fl.bounds(s) {
		if b.NonZero {
			continue
		}
		// D >= M with D = end - <len(b) | receiver field> + const, or the
		// mirrored D <= M with D = <len(b) | receiver field> - end + const
		rest := b.D.Sub(end)
		if b.Upper {
			rest = b.D.Neg().Sub(end)
		}
		if len(rest.Terms) != 1 {
			continue
		}
		for t, c := range rest.Terms {
			if c == -1 && (t == lenTerm || strings.HasPrefix(t, "f"+kit.VarToken(rd.recv))) {
				site.add(c16V("ok", "justified by %s >= %d", b.D.String(), b.M))
				return
			}
		}
	}
	if s.Get("q:unk") != "" {
		site.add(c16V("undec", "%s: no lower bound of the position on a path that passed a decision the rule does not interpret (%s)", f.Str(r), s.Get("q:unk")))
		return
	}
	site.add(c16V("viol", "%s is reachable after a device read without error although neither %s >= len(%s) nor a configured limit is known to be exceeded: the part of a frame already in b is abandoned, frames that span two reads are lost", f.Str(r), end.String(), rd.buf.Name()))
}

// onStuckExit (R3, progress): a return that hands nothing to the caller, taken
// before any device read although a terminated fragment was identified at
// the head of the leftover buffer, must have removed that fragment: nothing
// else changes between two calls, so the next call takes the same path for ever.
func (fl *c16Flow) onStuckExit(r *ast.ReturnStmt, s kit.S, key string) {
	rd := fl.rd
	f := rd.f
	Ks := fl.terminators(s, "l")
	if len(Ks) == 0 {
		return
	}
	site := fl.ss.at("R3", r, "exit before device read "+key, "an exit taken after a terminated fragment was found in the leftover buffer, without reading the device, has removed that fragment (up to its terminator) from the leftover buffer")
	took := s.Get("q:took")
	if took == "" {
		took = s.Get("q:tookD")
	}
	var taken kit.Affine
	have := false
	switch {
	case s.Get("q:mv") != "":
		parts := strings.SplitN(s.Get("q:mv"), "|", 2)
		lo, ok1 := fl.tab[parts[0]]
		hi, ok2 := fl.tab[parts[1]]
		if ok1 && ok2 {
			taken, have = fl.substEq(hi.Sub(lo), s), true
		}
	case took != "":
		if tk, ok := fl.tab[took]; ok {
			taken, have = fl.substEq(tk, s), true
		}
	default:
		switch {
		case s.Get("q:lounk") != "":
			site.add(c16V("undec", "%s: the leftover buffer is used in a way the rule does not model (%s)", f.Str(r), s.Get("q:lounk")))
		case s.Get("q:unk") != "":
			site.add(c16V("undec", "%s is reached without removal on a path that passed a decision the rule does not interpret (%s)", f.Str(r), s.Get("q:unk")))
		case fl.inPackageCallers() != "":
			// part of a split reader: the caller goes on after this exit
			site.add(c16V("undec", "%s is reached without removal, but %s is called from %s: what follows this exit is decided there (a split reader is not followed across functions)", f.Str(r), f.Name, fl.inPackageCallers()))
		default:
			site.add(c16V("viol", "%s (at %s) is reachable after a terminated fragment was found in the leftover buffer, without reading the device and without removing anything from the leftover buffer: every later call finds the same fragment and returns the same way, no further frame is ever delivered", f.Str(r), f.At(r)))
		}
		return
	}
	if !have {
		site.add(c16V("ok", "something is removed from the leftover buffer before the exit"))
		return
	}
	for _, K := range Ks {
		if d, isC := taken.Sub(fl.substEq(K, s)).Const(); isC {
			if d > 1 {
				site.add(c16V("viol", "%s removes %s bytes although the fragment ends at index %s: %d byte(s) of the following frame are dropped", f.Str(r), taken.String(), K.String(), d-1))
			} else {
				site.add(c16V("ok", "removes %s bytes, fragment terminator at index %s", taken.String(), K.String()))
			}
			return
		}
	}
	site.add(c16V("ok", "something is removed from the leftover buffer before the exit"))
}

// isWriteOnly: e denotes a bytes.Buffer object made by bytes.NewBuffer /
// NewBufferString in this function whose only uses are writes.
func (fl *c16Flow) isWriteOnly(e ast.Expr) bool {
	rd := fl.rd
	info := rd.f.Info()
	e = ast.Unparen(e)
	isNew := func(x ast.Expr) bool {
		c, ok := ast.Unparen(x).(*ast.CallExpr)
		return ok && kit.CallIs(info, c, "bytes.NewBuffer", "bytes.NewBufferString")
	}
	if isNew(e) {
		return true // the object is dropped right after the write
	}
	id, ok := e.(*ast.Ident)
	if !ok {
		return false
	}
	o := kit.ObjOf(info, id)
	if o == nil {
		return false
	}
	if v, ok := fl.writeOnly[o]; ok {
		return v
	}
	made, only := 0, true
	writes := map[string]bool{"Write": true, "WriteByte": true, "WriteString": true, "WriteRune": true, "Grow": true, "Reset": true, "Truncate": true}
	ast.Inspect(rd.f.Root().Body, func(x ast.Node) bool {
		switch y := x.(type) {
		case *ast.AssignStmt:
			for i, l := range y.Lhs {
				if kit.ObjOf(info, l) == o {
					if len(y.Lhs) == len(y.Rhs) && isNew(y.Rhs[i]) {
						made++
					} else {
						only = false
					}
				}
			}
		case *ast.ValueSpec:
			for i, nm := range y.Names {
				if info.Defs[nm] == o {
					if i < len(y.Values) && isNew(y.Values[i]) {
						made++
					} else {
						only = false
					}
				}
			}
		case *ast.Ident:
			if info.Uses[y] != o {
				return true
			}
			// every use must be the receiver of a write-type method call
			par := fl.c.P.Parent(rd.f.File, y)
			sel, ok := par.(*ast.SelectorExpr)
			if !ok || sel.X != y || !writes[sel.Sel.Name] {
				// the left-hand side of its own definition is handled above
				if as, ok := par.(*ast.AssignStmt); ok {
					for _, l := range as.Lhs {
						if l == ast.Expr(y) {
							return true
						}
					}
				}
				only = false
				return true
			}
			if call, ok := fl.c.P.Parent(rd.f.File, sel).(*ast.CallExpr); !ok || call.Fun != ast.Expr(sel) {
				only = false
			}
		}
		return true
	})
	res := made >= 1 && only
	fl.writeOnly[o] = res
	return res
}

// ---------------------------------------------------------------------------
// writer (R5)

func c16Writer(c *kit.Ctx, r5 *kit.Rule) {
	const qEncode = "github.com/dim13/cobs.Encode"
	funcs := c.P.Funcs("client")
	// functions that encode, directly or through same-package callees (depth <= 2)
	encodes := map[*kit.Func]bool{}
	for _, f := range funcs {
		if f.Body == nil {
			continue
		}
		for _, call := range f.AllCalls(false) {
			if kit.CallIs(f.Info(), call, qEncode) {
				encodes[f] = true
			}
		}
	}
	if len(encodes) == 0 {
		c.Fatalf("no function of package client calls %s (frame writer lost)", qEncode)
	}
	direct := map[*kit.Func]bool{}
	for f := range encodes {
		direct[f] = true
	}
	for depth := 0; depth < 2; depth++ {
		for _, f := range funcs {
			if f.Body == nil || encodes[f] {
				continue
			}
			for _, call := range f.AllCalls(false) {
				if cf := f.CalleeFunc(call); cf != nil && encodes[cf] {
					encodes[f] = true
				}
			}
		}
	}
	n := 0
	connected := map[*kit.Func]bool{}
	for _, f := range funcs {
		if f.Body == nil || !encodes[f] {
			continue
		}
		recv := c16RecvVar(f)
		var writes []*ast.CallExpr
		if recv != nil {
			for _, call := range f.AllCalls(false) {
				if c16IfaceCall(f, recv, call, "Write") != nil {
					writes = append(writes, call)
				}
			}
		}
		if len(writes) == 0 {
			continue
		}
		c.Analysed(f)
		n++
		connected[f] = true
		for _, call := range f.AllCalls(false) {
			if cf := f.CalleeFunc(call); cf != nil && encodes[cf] {
				connected[cf] = true
				for _, c2 := range cf.AllCalls(false) {
					if cf2 := cf.CalleeFunc(c2); cf2 != nil && encodes[cf2] {
						connected[cf2] = true
					}
				}
			}
		}
		o := r5.Ob(f, f.Node(), "device write", "every non-error exit has handed to the device: zero bytes followed by Encode(<whole payload parameter>)")
		var payload *types.Var
		for _, p := range f.Params() {
			if c16IsByteSlice(p.Type()) {
				if payload != nil {
					payload = nil
					break
				}
				payload = p
			}
		}
		if payload == nil {
			o.Undecided("%s does not have exactly one []byte parameter", f.Name)
			continue
		}
		c16JudgeWriter(c, f, o, payload, writes, qEncode)
	}
	for _, f := range funcs {
		if direct[f] && !connected[f] {
			r5.Ob(f, f.Node(), "device write", "every non-error exit has handed to the device: zero bytes followed by Encode(<whole payload parameter>)").
				Undecided("%s encodes a frame but no method that writes to a wrapped device is seen to use it", f.Name)
			n++
		}
	}
	if n == 0 {
		c.Fatalf("no method of package client that writes to an interface-typed device field uses %s (frame writer lost)", qEncode)
	}
}

// c16Resolve follows a local variable that is assigned exactly once (and never
// has its address taken) to its defining expression.
func c16Resolve(f *kit.Func, e ast.Expr) ast.Expr {
	info := f.Info()
	for depth := 0; depth < 4; depth++ {
		id, ok := ast.Unparen(e).(*ast.Ident)
		if !ok {
			return e
		}
		o, ok := kit.ObjOf(info, id).(*types.Var)
		if !ok || o.IsField() {
			return e
		}
		var def ast.Expr
		n := 0
		ast.Inspect(f.Root().Body, func(x ast.Node) bool {
			switch y := x.(type) {
			case *ast.AssignStmt:
				for i, l := range y.Lhs {
					if kit.ObjOf(info, l) == o {
						n++
						if len(y.Lhs) == len(y.Rhs) && (y.Tok == token.DEFINE || y.Tok == token.ASSIGN) {
							def = y.Rhs[i]
						} else {
							n += 10
						}
					}
				}
			case *ast.ValueSpec:
				for i, nm := range y.Names {
					if info.Defs[nm] == o {
						n++
						if i < len(y.Values) && len(y.Values) == len(y.Names) {
							def = y.Values[i]
						} else {
							n += 10
						}
					}
				}
			case *ast.IncDecStmt:
				if kit.ObjOf(info, y.X) == o {
					n += 10
				}
			case *ast.UnaryExpr:
				if y.Op == token.AND && kit.ObjOf(info, y.X) == o {
					n += 10
				}
			case *ast.RangeStmt:
				if (y.Key != nil && kit.ObjOf(info, y.Key) == o) || (y.Value != nil && kit.ObjOf(info, y.Value) == o) {
					n += 10
				}
			}
			return true
		})
		if n != 1 || def == nil {
			return e
		}
		e = def
	}
	return e
}

// c16Values lists the expressions assigned to the local variable named by id
// (nothing for parameters, fields and variables that are never assigned).
func c16Values(f *kit.Func, id *ast.Ident) []ast.Expr {
	info := f.Info()
	o, ok := kit.ObjOf(info, id).(*types.Var)
	if !ok || o.IsField() {
		return nil
	}
	var out []ast.Expr
	ast.Inspect(f.Root().Body, func(x ast.Node) bool {
		switch y := x.(type) {
		case *ast.AssignStmt:
			for i, l := range y.Lhs {
				if kit.ObjOf(info, l) == types.Object(o) {
					if len(y.Lhs) == len(y.Rhs) {
						out = append(out, y.Rhs[i])
					} else {
						out = append(out, y.Rhs...)
					}
				}
			}
		case *ast.ValueSpec:
			for _, nm := range y.Names {
				if info.Defs[nm] == types.Object(o) {
					out = append(out, y.Values...)
				}
			}
		}
		return true
	})
	return out
}

// c16GrownSlice recognises a local slice that is defined and then extended
// once, by two statements of the same block with no use of it in between:
//
//	x := <first>
//	x = append(x, rest...)
//
// It returns <first> and the append call (nil when e is not such a variable).
func c16GrownSlice(f *kit.Func, e ast.Expr) (first ast.Expr, app *ast.CallExpr) {
	info := f.Info()
	id, ok := ast.Unparen(e).(*ast.Ident)
	if !ok {
		return nil, nil
	}
	o, ok := kit.ObjOf(info, id).(*types.Var)
	if !ok || o.IsField() {
		return nil, nil
	}
	mentions := func(n ast.Node) bool {
		found := false
		ast.Inspect(n, func(x ast.Node) bool {
			if y, ok := x.(*ast.Ident); ok && kit.ObjOf(info, y) == types.Object(o) {
				found = true
			}
			return !found
		})
		return found
	}
	assigns, addr := 0, false
	ast.Inspect(f.Root().Body, func(x ast.Node) bool {
		switch y := x.(type) {
		case *ast.AssignStmt:
			for _, l := range y.Lhs {
				if kit.ObjOf(info, l) == types.Object(o) {
					assigns++
				}
			}
		case *ast.ValueSpec:
			for _, nm := range y.Names {
				if info.Defs[nm] == types.Object(o) {
					assigns++
				}
			}
		case *ast.UnaryExpr:
			if y.Op == token.AND && kit.ObjOf(info, y.X) == types.Object(o) {
				addr = true
			}
		case *ast.RangeStmt:
			if (y.Key != nil && kit.ObjOf(info, y.Key) == types.Object(o)) || (y.Value != nil && kit.ObjOf(info, y.Value) == types.Object(o)) {
				addr = true
			}
		}
		return true
	})
	if assigns != 2 || addr {
		return nil, nil
	}
	ast.Inspect(f.Root().Body, func(x ast.Node) bool {
		blk, ok := x.(*ast.BlockStmt)
		if !ok || app != nil {
			return app == nil
		}
		for i, st := range blk.List {
			def, ok := st.(*ast.AssignStmt)
			if !ok || def.Tok != token.DEFINE || len(def.Lhs) != 1 || len(def.Rhs) != 1 || kit.ObjOf(info, def.Lhs[0]) != types.Object(o) {
				continue
			}
			for _, later := range blk.List[i+1:] {
				as, ok := later.(*ast.AssignStmt)
				if !ok || as.Tok != token.ASSIGN || len(as.Lhs) != 1 || len(as.Rhs) != 1 || kit.ObjOf(info, as.Lhs[0]) != types.Object(o) {
					if mentions(later) {
						return false
					}
					continue
				}
				call, ok := ast.Unparen(as.Rhs[0]).(*ast.CallExpr)
				if !ok || len(call.Args) != 2 || !call.Ellipsis.IsValid() || kit.ObjOf(info, call.Args[0]) != types.Object(o) || mentions(call.Args[1]) {
					return false
				}
				if bi, isB := kit.Callee(info, call).(*types.Builtin); !isB || bi.Name() != "append" {
					return false
				}
				first, app = def.Rhs[0], call
				return false
			}
			return false
		}
		return true
	})
	return first, app
}

func c16JudgeWriter(c *kit.Ctx, f *kit.Func, o *kit.Ob, payload *types.Var, writes []*ast.CallExpr, qEncode string) {
	info := f.Info()
	isEncodeOfPayload := func(e ast.Expr) (string, string) { // verdict kind, message
		call, ok := ast.Unparen(c16Resolve(f, e)).(*ast.CallExpr)
		if !ok || !kit.CallIs(info, call, qEncode) || len(call.Args) != 1 {
			return "undec", "not a call of Encode"
		}
		arg := ast.Unparen(call.Args[0])
		if kit.ObjOf(info, arg) == payload {
			return "ok", ""
		}
		if se, ok := arg.(*ast.SliceExpr); ok && kit.ObjOf(info, se.X) == payload {
			lo, hi, okb := kit.SliceBounds(info, se, payload)
			if okb {
				d, c1 := lo.Const()
				e2, c2 := hi.Sub(kit.AffLen(payload)).Const()
				if c1 && c2 && d == 0 && e2 == 0 {
					return "ok", ""
				}
				if (c1 && d != 0) || (c2 && e2 != 0) {
					return "viol", fmt.Sprintf("only %s of the payload is encoded", f.Str(arg))
				}
			}
			return "undec", fmt.Sprintf("cannot tell whether %s is the whole payload", f.Str(arg))
		}
		return "undec", fmt.Sprintf("Encode is applied to %s, not to the payload parameter %s", f.Str(arg), payload.Name())
	}
	allZero := func(e ast.Expr) (bool, bool) { // isZeros, recognised
		e = ast.Unparen(c16Resolve(f, e))
		if kit.IsNilIdent(info, e) {
			return true, true
		}
		// make([]byte, n[, cap]) holds n zero bytes
		if mk, isCall := e.(*ast.CallExpr); isCall && len(mk.Args) >= 2 {
			if bi, isB := kit.Callee(info, mk).(*types.Builtin); isB && bi.Name() == "make" && c16IsByteSlice(info.TypeOf(mk)) {
				if _, isC := kit.ConstInt(info, mk.Args[1]); isC {
					return true, true
				}
			}
			return false, false
		}
		cl, ok := e.(*ast.CompositeLit)
		if !ok || !c16IsByteSlice(info.TypeOf(cl)) {
			return false, false
		}
		for _, el := range cl.Elts {
			if _, isKV := el.(*ast.KeyValueExpr); isKV {
				return false, false
			}
			v, ok := kit.ConstInt(info, el)
			if !ok {
				return false, false
			}
			if v != 0 {
				return false, true
			}
		}
		return true, true
	}
	judgeArg := func(e ast.Expr) (string, string) {
		e0 := e
		e = ast.Unparen(c16Resolve(f, e))
		if k, m := isEncodeOfPayload(e); k != "undec" || m != "not a call of Encode" {
			return k, m
		}
		call, ok := e.(*ast.CallExpr)
		if ok {
			if bi, isB := kit.Callee(info, call).(*types.Builtin); isB && bi.Name() == "make" {
				if k, m, is := c16MakeCopyFrame(c, f, e0, call, payload, qEncode); is {
					return k, m
				}
			}
			if h := f.CalleeFunc(call); h != nil && h.Body != nil && h != f && h.Pkg == f.Pkg {
				if k, m, is := c16FrameHelper(c, f, h, call, payload, qEncode); is {
					return k, m
				}
			}
		}
		// x := <zeros>; x = append(x, rest...): the same list as append(<zeros>, rest...)
		if zeros, app := c16GrownSlice(f, e); app != nil {
			call, ok = &ast.CallExpr{Fun: app.Fun, Lparen: app.Lparen, Args: []ast.Expr{zeros, app.Args[1]}, Ellipsis: app.Ellipsis, Rparen: app.Rparen}, true
		}
		if ok {
			if bi, isB := kit.Callee(info, call).(*types.Builtin); isB && bi.Name() == "append" && len(call.Args) == 2 && call.Ellipsis.IsValid() {
				z, rec := allZero(call.Args[0])
				k, m := isEncodeOfPayload(call.Args[1])
				if !(k == "undec" && m == "not a call of Encode") {
					if k != "ok" {
						return k, m
					}
					if rec && !z {
						return "viol", fmt.Sprintf("the frame is prefixed with %s: a non-zero byte in front of the code byte corrupts the frame", f.Str(call.Args[0]))
					}
					if !rec {
						return "undec", fmt.Sprintf("cannot tell whether the prefix %s consists of zero bytes", f.Str(call.Args[0]))
					}
					return "ok", ""
				}
				// otherwise: fall through to the "does it involve Encode at all" test
			}
		}
		// does the expression involve Encode at all?
		has := false
		ast.Inspect(e, func(x ast.Node) bool {
			if cc, ok := x.(*ast.CallExpr); ok && kit.CallIs(info, cc, qEncode) {
				has = true
			}
			if id, ok := x.(*ast.Ident); ok {
				for _, r := range c16Values(f, id) {
					ast.Inspect(r, func(z ast.Node) bool {
						if cc, ok := z.(*ast.CallExpr); ok && kit.CallIs(info, cc, qEncode) {
							has = true
						}
						if id2, ok := z.(*ast.Ident); ok && id2 != id {
							if r2 := c16Resolve(f, id2); r2 != ast.Expr(id2) {
								ast.Inspect(r2, func(z2 ast.Node) bool {
									if cc, ok := z2.(*ast.CallExpr); ok && kit.CallIs(info, cc, qEncode) {
										has = true
									}
									return true
								})
							}
						}
						return true
					})
				}
				if r := c16Resolve(f, id); r != ast.Expr(id) {
					ast.Inspect(r, func(z ast.Node) bool {
						if cc, ok := z.(*ast.CallExpr); ok && kit.CallIs(info, cc, qEncode) {
							has = true
						}
						return true
					})
				}
			}
			return true
		})
		if !has {
			return "viol", fmt.Sprintf("the device is given %s, which is not derived from Encode(payload)", f.Str(e))
		}
		return "undec", fmt.Sprintf("the shape of %s is not recognised", f.Str(e))
	}
	good := map[*ast.CallExpr]bool{}
	for _, w := range writes {
		k, m := judgeArg(w.Args[0])
		switch k {
		case "viol":
			o.Violation("%s: %s", f.At(w), m)
			return
		case "undec":
			o.Undecided("%s: %s", f.At(w), m)
			return
		}
		good[w] = true
	}
	// every exit that may report success has passed a good write
	st := &kit.Std{F: f}
	st.OnCall = func(call *ast.CallExpr, n ast.Node, s kit.S) []kit.S {
		if good[call] {
			if s.Get("w") != "" {
				return []kit.S{s.Set("w", "2+")}
			}
			return []kit.S{s.Set("w", "1")}
		}
		return nil
	}
	res := f.Prog.Graph(f).Run(kit.NewS(), st.Client())
	if res.Overflow {
		c.Fatalf("C16/R5: state overflow in %s", f.Name)
	}
	for _, e := range res.Exits {
		if e.Return == nil {
			continue
		}
		if st.ReturnsNil(e.Return, e.State) == "nonnil" {
			continue
		}
		switch e.State.Get("w") {
		case "":
			o.Violation("%s can return at %s without having written the frame to the device", f.Name, f.At(e.Return)).WithPath(res.PathTo(e))
			return
		case "2+":
			o.Violation("%s can write the frame twice before returning at %s", f.Name, f.At(e.Return)).WithPath(res.PathTo(e))
			return
		}
	}
	o.OK("device receives zeros ‖ Encode(%s) exactly once on every non-error exit", payload.Name())
}

// ---------------------------------------------------------------------------

func runC16(c *kit.Ctx) {
	r1 := c.Rule("R1", "tail behind the terminator saved before a frame is returned", 1)
	r2 := c.Rule("R2", "leftover moved into the caller's buffer and drained before the device read", 1)
	r3 := c.Rule("R3", "frame from leftover consumes exactly the prefix it decodes", 1)
	r4 := c.Rule("R4", "bounded accumulation: reads continue behind the data, stop only when full", 2)
	r5 := c.Rule("R5", "writer hands zeros ‖ Encode(payload) to the device", 1)
	r6 := c.Rule("R6", "packet-start flag reflects the bytes moved from the leftover buffer", 1)
	r7 := c.Rule("R7", "bounded streams: every frame delivered once for every cut into device reads", 1)
	rules := map[string]*kit.Rule{"R1": r1, "R2": r2, "R3": r3, "R4": r4, "R6": r6}

	readers := c16FindReaders(c)
	if len(readers) == 0 {
		c.Fatalf("no method of package client reads an interface-typed device field into its []byte parameter next to a bytes.Buffer field (COBS reader lost)")
	}
	for _, rd := range readers {
		c.Analysed(rd.f)
		fl := &c16Flow{c: c, rd: rd, tab: map[string]kit.Affine{}, writeOnly: map[types.Object]bool{}, canon: map[types.Object]c16CanonLoop{}}
		fl.run()
		keys := append([]string(nil), fl.ss.order...)
		sort.Strings(keys)
		for _, k := range keys {
			site := fl.ss.m[k]
			o := rules[site.rule].Ob(rd.f, site.node, site.construct, site.oblig)
			switch {
			case len(site.viol) > 0:
				o.Violation("%s", strings.Join(site.viol, "; "))
			case len(site.undec) > 0:
				o.Undecided("%s", strings.Join(site.undec, "; "))
			default:
				o.OK("%s", strings.Join(site.ok, "; "))
			}
		}
	}
	segDone := map[*kit.Func]bool{}
	for _, rd := range readers {
		if entry := c16SegEntry(c, rd); rd.dev != nil && !segDone[entry] {
			segDone[entry] = true
			c16Segments(c, r7, rd)
		}
	}
	c16Writer(c, r5)
}

// c16FrameHelper judges a same-package function that builds the frame for
// the writer: it must be given the whole payload and return, on every path,
// zeros followed by Encode(<its parameter>): either one of the shapes the
// writer itself may use, or make([]byte, K+len(enc)) + copy(frame[K:], enc).
func c16FrameHelper(c *kit.Ctx, f, h *kit.Func, call *ast.CallExpr, payload *types.Var, qEncode string) (kind, msg string, is bool) {
	info := h.Info()
	var hp *types.Var
	hi := -1
	for i, p := range h.Params() {
		if c16IsByteSlice(p.Type()) {
			if hp != nil {
				return "", "", false
			}
			hp, hi = p, i
		}
	}
	if hp == nil || hi >= len(call.Args) {
		return "", "", false
	}
	hasEnc := false
	for _, c2 := range h.AllCalls(false) {
		if kit.CallIs(info, c2, qEncode) {
			hasEnc = true
		}
	}
	if !hasEnc {
		return "", "", false
	}
	c.Analysed(h)
	if kit.ObjOf(f.Info(), call.Args[hi]) != payload {
		return "undec", fmt.Sprintf("%s is given %s, not the payload parameter %s", h.Name, f.Str(call.Args[hi]), payload.Name()), true
	}
	encOf := func(e ast.Expr) bool { // e is Encode(<hp>), possibly through a single-assignment local
		cc, ok := ast.Unparen(c16Resolve(h, e)).(*ast.CallExpr)
		return ok && kit.CallIs(info, cc, qEncode) && len(cc.Args) == 1 && kit.ObjOf(info, cc.Args[0]) == hp
	}
	var rets []*ast.ReturnStmt
	ast.Inspect(h.Body, func(n ast.Node) bool {
		if _, ok := n.(*ast.FuncLit); ok {
			return false
		}
		if r, ok := n.(*ast.ReturnStmt); ok {
			rets = append(rets, r)
		}
		return true
	})
	if len(rets) == 0 {
		return "undec", h.Name + " has no return statement", true
	}
	for _, r := range rets {
		if len(r.Results) != 1 {
			return "undec", fmt.Sprintf("%s returns %d values", h.Name, len(r.Results)), true
		}
		e := ast.Unparen(c16Resolve(h, r.Results[0]))
		if encOf(e) {
			continue
		}
		if ap, ok := e.(*ast.CallExpr); ok {
			if bi, isB := kit.Callee(info, ap).(*types.Builtin); isB && bi.Name() == "append" && len(ap.Args) == 2 && ap.Ellipsis.IsValid() && encOf(ap.Args[1]) {
				if cl, ok := ast.Unparen(c16Resolve(h, ap.Args[0])).(*ast.CompositeLit); ok && c16IsByteSlice(info.TypeOf(cl)) {
					zeros := true
					for _, el := range cl.Elts {
						if v, ok := kit.ConstInt(info, el); !ok || v != 0 {
							zeros = false
						}
					}
					if zeros {
						continue
					}
				}
				return "undec", fmt.Sprintf("%s: the prefix %s is not a literal of zero bytes", h.Name, h.Str(ap.Args[0])), true
			}
			// frame := make([]byte, K+len(enc)); copy(frame[K:], enc); return frame
			if bi, isB := kit.Callee(info, ap).(*types.Builtin); isB && bi.Name() == "make" && len(ap.Args) == 2 {
				fv := kit.ObjOf(info, r.Results[0])
				if fv == nil {
					return "undec", h.Name + " returns make(...) directly", true
				}
				size, ok := kit.AffineOf(info, ap.Args[1])
				if !ok {
					return "undec", fmt.Sprintf("%s: the size %s of the frame is not linear", h.Name, h.Str(ap.Args[1])), true
				}
				// uses of the frame variable: exactly one copy(frame[K:], enc), the return, its definition
				copies, other := 0, false
				var K int64
				var src ast.Expr
				ast.Inspect(h.Body, func(n ast.Node) bool {
					switch x := n.(type) {
					case *ast.CallExpr:
						if b2, isB := kit.Callee(info, x).(*types.Builtin); isB && b2.Name() == "copy" && len(x.Args) == 2 {
							if se, ok := ast.Unparen(x.Args[0]).(*ast.SliceExpr); ok && kit.ObjOf(info, se.X) == fv && se.High == nil && !se.Slice3 {
								k := int64(0)
								if se.Low != nil {
									kk, isC := kit.ConstInt(info, se.Low)
									if !isC {
										other = true
									}
									k = kk
								}
								copies++
								K, src = k, x.Args[1]
								return false
							}
						}
					case *ast.Ident:
						if info.Uses[x] == fv {
							par := c.P.Parent(h.File, x)
							if _, isRet := par.(*ast.ReturnStmt); !isRet {
								other = true
							}
						}
					}
					return true
				})
				if copies != 1 || other || src == nil || !encOf(src) {
					return "undec", fmt.Sprintf("%s: the frame buffer is filled in a way the rule does not follow", h.Name), true
				}
				so := kit.ObjOf(info, src)
				if so == nil {
					return "undec", fmt.Sprintf("%s: the encoded bytes are not held in a variable", h.Name), true
				}
				want := kit.AffLen(so).AddK(K)
				if d, isC := size.Sub(want).Const(); !isC {
					return "undec", fmt.Sprintf("%s: cannot relate the frame size %s to %d + len(%s)", h.Name, h.Str(ap.Args[1]), K, so.Name()), true
				} else if d < 0 {
					return "viol", fmt.Sprintf("%s: the frame buffer has %d byte(s) less than %d + len(%s): the end of the encoded frame (its terminator) is cut off", h.Name, -d, K, so.Name()), true
				}
				continue // zeros (K in front, d behind) around the whole encoded frame
			}
		}
		return "undec", fmt.Sprintf("%s returns %s, a shape the rule does not recognise", h.Name, h.Str(r.Results[0])), true
	}
	return "ok", "", true
}

// c16MakeCopyFrame judges `w := make([]byte, K+len(enc)); copy(w[K:], enc)`
// with enc := Encode(<payload>) in function f; e0 is the (unresolved) use of w.
func c16MakeCopyFrame(c *kit.Ctx, f *kit.Func, e0 ast.Expr, mk *ast.CallExpr, payload *types.Var, qEncode string) (kind, msg string, is bool) {
	info := f.Info()
	fv := kit.ObjOf(info, e0)
	if fv == nil || len(mk.Args) != 2 {
		return "", "", false
	}
	encOf := func(e ast.Expr) bool {
		cc, ok := ast.Unparen(c16Resolve(f, e)).(*ast.CallExpr)
		return ok && kit.CallIs(info, cc, qEncode) && len(cc.Args) == 1 && kit.ObjOf(info, cc.Args[0]) == payload
	}
	size, ok := kit.AffineOf(info, mk.Args[1])
	if !ok {
		return "undec", fmt.Sprintf("the size %s of the frame buffer is not linear", f.Str(mk.Args[1])), true
	}
	copies, other := 0, false
	var K int64
	var src ast.Expr
	ast.Inspect(f.Body, func(n ast.Node) bool {
		switch x := n.(type) {
		case *ast.CallExpr:
			if b2, isB := kit.Callee(info, x).(*types.Builtin); isB && b2.Name() == "copy" && len(x.Args) == 2 {
				if se, ok := ast.Unparen(x.Args[0]).(*ast.SliceExpr); ok && kit.ObjOf(info, se.X) == fv && se.High == nil && !se.Slice3 {
					k := int64(0)
					if se.Low != nil {
						kk, isC := kit.ConstInt(info, se.Low)
						if !isC {
							other = true
						}
						k = kk
					}
					copies++
					K, src = k, x.Args[1]
					return false
				}
			}
		case *ast.AssignStmt:
			for _, l := range x.Lhs {
				if ix, ok := ast.Unparen(l).(*ast.IndexExpr); ok && kit.ObjOf(info, ix.X) == fv {
					other = true // an element of the frame is written
				}
			}
		case *ast.UnaryExpr:
			if x.Op == token.AND && kit.ObjOf(info, x.X) == fv {
				other = true
			}
		}
		return true
	})
	if copies != 1 || other || src == nil || !encOf(src) {
		return "undec", "the frame buffer is filled in a way the rule does not follow", true
	}
	so := kit.ObjOf(info, src)
	if so == nil {
		return "undec", "the encoded bytes are not held in a variable", true
	}
	want := kit.AffLen(so).AddK(K)
	if d, isC := size.Sub(want).Const(); !isC {
		return "undec", fmt.Sprintf("cannot relate the frame size %s to %d + len(%s)", f.Str(mk.Args[1]), K, so.Name()), true
	} else if d < 0 {
		return "viol", fmt.Sprintf("the frame buffer has %d byte(s) less than %d + len(%s): the end of the encoded frame (its terminator) is cut off", -d, K, so.Name()), true
	}
	return "ok", "", true
}
