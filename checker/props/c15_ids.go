package props

import (
	"go/ast"
	"go/token"
	"go/types"
	"strings"

	"golang.org/x/tools/go/cfg"

	"siotcheck/kit"
)

// ---------------------------------------------------------------------------
// R3 — id replacement is a function of the old id

type c15Repl struct {
	c    *kit.Ctx
	a    *c15Anchors
	f    *kit.Func
	info *types.Info
	N    *types.Var   // *NodeEdgeChildren parameter
	P    *types.Var   // string parameter (parent handed down)
	M    types.Object // the map
	nid  string       // value of data.PointTypeNodeID

	ptsLoop, chLoop *ast.RangeStmt
	ptsCopies       map[types.Object]bool // locals holding a copy of the current point
	chCopies        map[types.Object]bool // locals holding a copy of the current child
	st              *kit.Std
	helpers         map[*kit.Func]bool

	mapMsgs, idMsgs, ptMsgs, treeMsgs c15Msgs
	s1Seen, s2Seen, recSeen           bool

	// the replacement is split into several recursive walks and this is one of
	// them: it is held only to the duties it takes on (what it writes)
	multi                              bool
	writesID, writesParent, writesText bool
	nIdx, pIdx                         int // positions of N and P among the parameters (pIdx -1: no parent parameter)
}

// duty names what the walk leaves undone in a subtree it does not enter.
func (r *c15Repl) duty() string {
	if !r.multi {
		return "its id and parent are"
	}
	var d []string
	if r.writesID {
		d = append(d, "id")
	}
	if r.writesParent {
		d = append(d, "parent")
	}
	if r.writesText {
		d = append(d, "node-id points")
	}
	return "(walk " + r.f.Name + ") its " + strings.Join(d, ", ") + " are"
}

func (m *c15Msgs) add(o c15Msgs) {
	for _, x := range o.v {
		c16Add(&m.v, x)
	}
	for _, x := range o.u {
		c16Add(&m.u, x)
	}
}

func (r *c15Repl) isN(e ast.Expr) bool { return c15IsVar(r.info, r.N)(e) }

func (r *c15Repl) isFresh(e ast.Expr) bool {
	call, ok := ast.Unparen(e).(*ast.CallExpr)
	if !ok {
		return false
	}
	q := kit.QualName(kit.Callee(r.info, call))
	if q == c15UUID+".NewString" {
		return true
	}
	if q == c15UUID+".(UUID).String" {
		if sel, ok := ast.Unparen(call.Fun).(*ast.SelectorExpr); ok {
			if inner, ok := ast.Unparen(sel.X).(*ast.CallExpr); ok {
				return strings.HasPrefix(kit.QualName(kit.Callee(r.info, inner)), c15UUID+".New")
			}
		}
	}
	return false
}

func (r *c15Repl) isMapIndex(e ast.Expr) (key ast.Expr, ok bool) {
	ix, isIx := ast.Unparen(e).(*ast.IndexExpr)
	if !isIx || !c15IsStrMap(r.info.TypeOf(ix.X)) {
		return nil, false
	}
	if kit.ObjOf(r.info, ix.X) != r.M {
		r.mapMsgs.viol("%s indexes a second map (%s): ids replaced through different maps do not agree", r.f.Str(ix), r.f.Str(ix.X))
	}
	return ix.Index, true
}

// ptElem: e denotes the current element of the loop over N.Points that lives
// in the slice (N.Points[<key>]); copy=true when e is the loop's value variable.
func (r *c15Repl) ptElem(e ast.Expr) (inSlice, copy bool) {
	if r.ptsLoop == nil {
		return false, false
	}
	if r.st != nil {
		e = r.st.Resolve(e)
	}
	e = ast.Unparen(e)
	// p := &N.Points[i] (single definition): the element itself, through a pointer
	if id, ok := e.(*ast.Ident); ok {
		if d := ast.Unparen(c16Resolve(r.f, id)); d != ast.Expr(id) {
			if u, ok := d.(*ast.UnaryExpr); ok && u.Op == token.AND {
				e = ast.Unparen(u.X)
			}
		}
	}
	if st, ok := e.(*ast.StarExpr); ok {
		if d := ast.Unparen(c16Resolve(r.f, st.X)); true {
			if u, ok := d.(*ast.UnaryExpr); ok && u.Op == token.AND {
				e = ast.Unparen(u.X)
			}
		}
	}
	if o := kit.ObjOf(r.info, e); o != nil && r.ptsCopies[o] {
		return false, true
	}
	if ix, ok := e.(*ast.IndexExpr); ok && r.ptsLoop.Key != nil && kit.ObjOf(r.info, ix.Index) != nil &&
		kit.ObjOf(r.info, ix.Index) == kit.ObjOf(r.info, r.ptsLoop.Key) && c15Field(r.info, ix.X, "Points", r.isN) {
		return true, false
	}
	return false, false
}

func (r *c15Repl) isPtText(e ast.Expr) bool {
	return c15Field(r.info, e, "Text", func(x ast.Expr) bool { a, b := r.ptElem(x); return a || b })
}

// canon names the old identifier an expression denotes under state s.
func (r *c15Repl) canon(e ast.Expr, s kit.S) string {
	if r.st != nil {
		e = r.st.Resolve(e)
	}
	if c15Field(r.info, e, "ID", r.isN) {
		if s.Get("s1") == "1" {
			return "newid"
		}
		return "id"
	}
	if r.isPtText(e) {
		if s.Get("s2") == "1" {
			if in, _ := r.ptElem(ast.Unparen(e).(*ast.SelectorExpr).X); in {
				return "newtxt"
			}
		}
		return "txt"
	}
	if o := kit.ObjOf(r.info, e); o != nil {
		if k := s.Get("kv:" + kit.VarID(o)); k != "" {
			return k
		}
	}
	return ""
}

func (r *c15Repl) missKnown(s kit.S, K string) bool {
	if s.Get("miss:"+K) == "1" {
		return true
	}
	for _, k := range s.Keys() {
		if strings.HasPrefix(k, "okof:") && strings.HasSuffix(s.Get(k), "|"+K) {
			if s.Get("a:bv:"+strings.TrimPrefix(k, "okof:")) == "F" {
				return true
			}
		}
	}
	return false
}

// hitKnown: a lookup under K succeeded on this path.
func (r *c15Repl) hitKnown(s kit.S, K string) bool {
	for _, k := range s.Keys() {
		if strings.HasPrefix(k, "okof:") && strings.HasSuffix(s.Get(k), "|"+K) && s.Get("a:bv:"+strings.TrimPrefix(k, "okof:")) == "T" {
			return true
		}
	}
	return false
}

// lookupOutcome: "hit", "miss" or "" for variable vid holding the result of a lookup under K.
func (r *c15Repl) lookupOutcome(s kit.S, vid, K string) string {
	for _, k := range s.Keys() {
		if strings.HasPrefix(k, "okof:") && s.Get(k) == vid+"|"+K {
			switch s.Get("a:bv:" + strings.TrimPrefix(k, "okof:")) {
			case "T":
				return "hit"
			case "F":
				return "miss"
			}
		}
	}
	switch s.Get("a:emp:v:" + vid) {
	case "F":
		return "hit"
	case "T":
		return "miss"
	}
	return ""
}

func (r *c15Repl) forget(s kit.S, o types.Object) kit.S {
	if o == nil {
		return s
	}
	id := kit.VarID(o)
	// a lookup result that is overwritten after a miss leaves the miss on record
	if src := s.Get("src:" + id); strings.HasPrefix(src, "look:") {
		K := strings.TrimPrefix(src, "look:")
		if r.lookupOutcome(s, id, K) == "miss" {
			s = s.Set("miss:"+K, "1")
		}
	}
	return s.Del("src:" + id).Del("kv:" + id).Del("okof:" + id).Del("a:bv:" + id).Del("a:emp:v:" + id)
}

func (r *c15Repl) judgeSink(msgs *c15Msgs, what string, K string, rhs ast.Expr, s kit.S, at ast.Node) kit.S {
	f := r.f
	src, vid := "", ""
	if r.isFresh(rhs) {
		src = "fresh"
	} else if call, ok := ast.Unparen(rhs).(*ast.CallExpr); ok && r.helpers[r.f.CalleeFunc(call)] {
		// the helper was evaluated inline; its return statement left the origin of the value
		src = s.Get("lastret")
		switch {
		case strings.HasPrefix(src, "hit:"):
			if K2 := strings.TrimPrefix(src, "hit:"); K2 != K {
				msgs.viol("%s: the value written to %s was looked up under %s, not under the old value of %s", f.Str(at), what, c15KeyName(K2), what)
			}
			return s
		case src == "missval":
			msgs.viol("%s: on a failed lookup the empty string is written to %s", f.Str(at), what)
			return s
		case strings.HasPrefix(src, "look?:"):
			msgs.viol("%s: the result of the map lookup is written to %s without testing whether the old id was found", f.Str(at), what)
			return s
		}
	} else if o := kit.ObjOf(r.info, rhs); o != nil {
		vid = kit.VarID(o)
		src = s.Get("src:" + vid)
	}
	switch {
	case src == "":
		msgs.undec("%s: the origin of the value written to %s is not followed", f.Str(at), what)
	case src == "fresh":
		if s.Get("a:emp:"+K) == "T" {
			return s // an empty old id always gets a new one
		}
		return s.Set("pend:"+K, vid+"@"+f.At(at))
	case strings.HasPrefix(src, "look:"):
		K2 := strings.TrimPrefix(src, "look:")
		if K2 != K {
			msgs.viol("%s: the value written to %s was looked up under %s, not under the old value of %s", f.Str(at), what, c15KeyName(K2), what)
			return s
		}
		switch r.lookupOutcome(s, vid, K) {
		case "hit":
		case "miss":
			msgs.viol("%s: on a failed lookup the empty string is written to %s", f.Str(at), what)
		default:
			msgs.viol("%s: the result of the map lookup is written to %s without testing whether the old id was found: the first occurrence of an id is replaced by the empty string", f.Str(at), what)
		}
	case strings.HasPrefix(src, "stored:"):
		if K2 := strings.TrimPrefix(src, "stored:"); K2 != K {
			msgs.viol("%s: the id written to %s was recorded under %s", f.Str(at), what, c15KeyName(K2))
		}
	}
	return s
}

func c15KeyName(K string) string {
	switch K {
	case "id":
		return "the node's old id"
	case "newid":
		return "the node's NEW id"
	case "txt":
		return "the point's old text"
	case "newtxt":
		return "the point's NEW text"
	case "":
		return "an expression the rule does not follow"
	}
	return K
}

// c15R3Pass runs the flow of one recursive walk of the replacement and collects
// what it finds; c15R3 settles the obligations over all walks.
func c15R3Pass(c *kit.Ctx, a *c15Anchors, f *kit.Func, multi bool) *c15Repl {
	info := f.Info()
	r := &c15Repl{c: c, a: a, f: f, info: info, nid: dataConst(c, "PointTypeNodeID"), multi: multi, nIdx: -1, pIdx: -1}
	for i, p := range f.Params() {
		if _, isPtr := p.Type().(*types.Pointer); isPtr && c15IsNEC(p.Type()) {
			r.N, r.nIdx = p, i
		} else if b, ok := p.Type().Underlying().(*types.Basic); ok && b.Kind() == types.String {
			if r.P != nil {
				c.Fatalf("replacer %s has two string parameters", f.Name)
			}
			r.P, r.pIdx = p, i
		}
	}
	if r.N == nil || (r.P == nil && !multi) {
		c.Fatalf("replacer %s: expected (*NodeEdgeChildren, string) parameters", f.Name)
	}
	helpers := a.replPassHelpers[f]
	// what this walk takes on
	ast.Inspect(f.Body, func(n ast.Node) bool {
		if as, ok := n.(*ast.AssignStmt); ok {
			for _, l := range as.Lhs {
				if c15Field(info, l, "ID", r.isN) {
					r.writesID = true
				}
				if c15Field(info, l, "Parent", r.isN) {
					r.writesParent = true
				}
			}
		}
		return true
	})
	r.writesText = c15WritesPointText(f, r)
	if multi && !r.writesID {
		// whether N.ID is still the old id here depends on the order in which the walks are started
		ast.Inspect(f.Body, func(n ast.Node) bool {
			if sel, ok := n.(*ast.SelectorExpr); ok && c15Field(info, sel, "ID", r.isN) {
				r.idMsgs.undec("%s reads the node's ID (%s) but another walk replaces it: whether this is the old or the new id depends on the order of the walks, which the rule does not follow", f.Name, f.At(sel))
				return false
			}
			return true
		})
		if r.writesParent {
			r.treeMsgs.undec("%s sets the node's Parent but another walk replaces the ids: whether the children receive the new id is not followed", f.Name)
		}
	}
	// the map and the two loops
	ast.Inspect(f.Body, func(n ast.Node) bool {
		switch x := n.(type) {
		case *ast.FuncLit:
			return false
		case *ast.IndexExpr:
			if c15IsStrMap(info.TypeOf(x.X)) && r.M == nil {
				r.M = kit.ObjOf(info, x.X)
			}
		}
		return true
	})
	for _, x := range f.SliceLoops(f.Body) {
		if c15Field(info, x.X, "Points", r.isN) {
			if r.ptsLoop != nil {
				c.Fatalf("replacer %s loops twice over the points", f.Name)
			}
			r.ptsLoop = x
			r.ptsCopies = kit.ElemAliases(info, x)
		}
		if c15Field(info, x.X, "Children", r.isN) {
			if r.chLoop != nil {
				c.Fatalf("replacer %s loops twice over the children", f.Name)
			}
			r.chLoop = x
			r.chCopies = kit.ElemAliases(info, x)
		}
	}
	r.helpers = map[*kit.Func]bool{}
	for _, h := range helpers {
		r.helpers[h] = true
		c.Analysed(h)
		ast.Inspect(h.Body, func(n ast.Node) bool {
			if x, ok := n.(*ast.IndexExpr); ok && c15IsStrMap(info.TypeOf(x.X)) && r.M == nil {
				r.M = kit.ObjOf(info, x.X)
			}
			return true
		})
	}
	if r.M == nil && !multi {
		c.Fatalf("replacer %s: map variable not found", f.Name)
	}

	// ---- one map, created once, outside the recursion
	if r.M != nil {
		inside := f.Node().Pos() <= r.M.Pos() && r.M.Pos() <= f.Node().End()
		isParam := false
		for _, p := range f.Params() {
			if p == r.M {
				isParam = true
			}
		}
		// the map is indexed in a helper through the helper's receiver or parameter:
		// judge the object the replacer hands in
		helperOwned := false
		for _, h := range helpers {
			if h.Node().Pos() <= r.M.Pos() && r.M.Pos() <= h.Node().End() {
				var handed types.Object
				okAll := true
				for _, call := range f.AllCalls(false) {
					if f.CalleeFunc(call) != h {
						continue
					}
					var arg ast.Expr
					if ro := c16RecvVar(h); ro == r.M {
						if sel, ok := ast.Unparen(call.Fun).(*ast.SelectorExpr); ok {
							arg = sel.X
						}
					} else {
						for i, p := range h.Params() {
							if p == r.M && i < len(call.Args) {
								arg = call.Args[i]
							}
						}
					}
					o := kit.ObjOf(info, arg)
					if arg == nil || o == nil || (handed != nil && handed != o) {
						okAll = false
					}
					handed = o
				}
				if !okAll || handed == nil {
					r.mapMsgs.undec("the map %s of %s is not visibly the same object at every call from %s", r.M.Name(), h.Name, f.Name)
					helperOwned = true
					break
				}
				helperOwned = true
				// the object handed in must be the replacer's own receiver or parameter, passed on unchanged
				recv := c16RecvVar(f)
				isOwnParam := false
				for _, p := range f.Params() {
					if p == handed {
						isOwnParam = true
					}
				}
				switch {
				case recv != nil && handed == recv:
					for _, call := range f.AllCalls(false) {
						if f.CalleeFunc(call) != f {
							continue
						}
						if sel, ok := ast.Unparen(call.Fun).(*ast.SelectorExpr); !ok || kit.ObjOf(info, sel.X) != recv {
							if _, fresh := ast.Unparen(sel.X).(*ast.CompositeLit); ok && fresh {
								r.mapMsgs.viol("%s starts every child with a new, empty map: references between subtrees are replaced inconsistently", f.Str(call))
							} else {
								r.mapMsgs.undec("%s: the recursion does not visibly go through the same receiver (which is / holds the map)", f.Str(call))
							}
						}
					}
				case isOwnParam:
					for _, call := range f.AllCalls(false) {
						if f.CalleeFunc(call) != f {
							continue
						}
						passed := false
						for _, a2 := range call.Args {
							if kit.ObjOf(info, a2) == handed {
								passed = true
							}
						}
						if !passed {
							r.mapMsgs.undec("%s: the recursion does not visibly pass the same map on", f.Str(call))
						}
					}
				case f.Node().Pos() <= handed.Pos() && handed.Pos() <= f.Node().End():
					r.mapMsgs.viol("the map %s is created inside the recursive function: every node gets its own map and references between nodes are replaced inconsistently", handed.Name())
				}
				for _, g := range append([]*kit.Func{f}, helpers...) {
					ast.Inspect(g.Body, func(x ast.Node) bool {
						if as, ok := x.(*ast.AssignStmt); ok {
							for _, l := range as.Lhs {
								if o := kit.ObjOf(info, l); o != nil && (o == handed || o == r.M) {
									r.mapMsgs.viol("%s replaces the map while ids are being translated", g.Str(as))
								}
							}
						}
						return true
					})
				}
			}
		}
		mv, _ := r.M.(*types.Var)
		switch {
		case helperOwned:
		case mv != nil && mv.IsField():
			// a field of the receiver: one map when every recursive call goes through
			// the same receiver and nothing assigns the field on the way
			recv := c16RecvVar(f)
			for _, call := range f.AllCalls(false) {
				if f.CalleeFunc(call) != f {
					continue
				}
				sel, ok := ast.Unparen(call.Fun).(*ast.SelectorExpr)
				if !ok || recv == nil || kit.ObjOf(info, sel.X) != recv {
					r.mapMsgs.undec("%s: the recursion does not visibly go through the same receiver (which holds the map %s)", f.Str(call), r.M.Name())
				}
			}
			for _, g := range append([]*kit.Func{f}, helpers...) {
				ast.Inspect(g.Body, func(x ast.Node) bool {
					if as, ok := x.(*ast.AssignStmt); ok {
						for _, l := range as.Lhs {
							if kit.ObjOf(info, l) == r.M {
								r.mapMsgs.viol("%s replaces the map while ids are being translated", g.Str(as))
							}
						}
					}
					return true
				})
			}
		case isParam:
			r.mapMsgs.undec("the map is a parameter of %s: whether every call receives the same map is not followed", f.Name)
		case inside:
			r.mapMsgs.viol("the map %s is created inside the recursive function: every node gets its own map and references between nodes are replaced inconsistently", r.M.Name())
		default:
			// assignments to the map variable anywhere in the outermost function
			n := 0
			ast.Inspect(f.Root().Body, func(x ast.Node) bool {
				switch y := x.(type) {
				case *ast.AssignStmt:
					for _, l := range y.Lhs {
						if kit.ObjOf(info, l) == r.M {
							n++
						}
					}
				case *ast.ValueSpec:
					for _, nm := range y.Names {
						if info.Defs[nm] == r.M {
							n++
						}
					}
				}
				return true
			})
			if n != 1 {
				r.mapMsgs.viol("the map %s is (re)assigned %d times", r.M.Name(), n)
			}
		}
	}

	// ---- the flow
	st := &kit.Std{F: f}
	r.st = st
	st.ShouldInline = func(cf *kit.Func, call *ast.CallExpr) bool { return r.helpers[cf] }
	st.Eval.Atom = func(e ast.Expr) (string, bool, bool) {
		// bool variable
		if id, ok := ast.Unparen(e).(*ast.Ident); ok {
			if o, ok := kit.ObjOf(info, id).(*types.Var); ok && !o.IsField() {
				if b, ok := o.Type().Underlying().(*types.Basic); ok && b.Kind() == types.Bool {
					return "bv:" + kit.VarID(o), false, true
				}
			}
		}
		isEmptyConst := func(x ast.Expr) bool { s, ok := kit.ConstString(info, x); return ok && s == "" }
		if neg, ok := eqAtom(e, func(x ast.Expr) bool { return c15Field(info, x, "ID", r.isN) }, isEmptyConst); ok {
			return "emp:id", neg, true
		}
		if neg, ok := eqAtom(e, r.isPtText, isEmptyConst); ok {
			return "emp:txt", neg, true
		}
		if neg, ok := eqAtom(e, func(x ast.Expr) bool {
			return c15Field(info, x, "Type", func(y ast.Expr) bool { a, b := r.ptElem(y); return a || b })
		}, constStringIs(info, r.nid)); ok {
			return "nid", neg, true
		}
		// V == "" for a local string variable
		a1, b1, op, isCmp := kit.CmpAtom(e)
		if isCmp && (op == token.EQL || op == token.NEQ) {
			if isEmptyConst(a1) {
				a1, b1 = b1, a1
			}
			if isEmptyConst(b1) {
				if o, ok := kit.ObjOf(info, a1).(*types.Var); ok && !o.IsField() && o != r.P {
					return "emp:v:" + kit.VarID(o), op == token.NEQ, true
				}
			}
		}
		return "", false, false
	}

	closeIteration := func(s kit.S) {
		nid, emp, s2 := s.Get("a:nid"), s.Get("a:emp:txt"), s.Get("s2") == "1"
		if !s2 && nid != "F" && emp != "T" && (r.writesText || !multi) {
			if multi && r.missKnown(s, "txt") && !r.hitKnown(s, "txt") {
				// after a walk that has recorded every node of the document, a miss is a
				// reference to a node outside of it; the order of the walks is not followed
				r.ptMsgs.undec("in %s a node-id point whose text is not found in the map keeps its text (loop at %s): when the ids were recorded by an earlier walk this is a reference out of the document, which the one-walk replacement gives a fresh id; when the walks run the other way round no reference is replaced", f.Name, f.At(r.ptsLoop))
			} else {
				r.ptMsgs.viol("a node-id point with non-empty text can pass the loop at %s without its text being replaced in the node's Points slice: the reference keeps the old id", f.At(r.ptsLoop))
			}
		}
		if s2 && emp != "F" {
			r.ptMsgs.viol("a node-id point whose text may be empty is given an id in the loop at %s: an empty reference comes back from the import pointing to a node", f.At(r.ptsLoop))
		}
		if s2 && nid != "T" {
			r.ptMsgs.viol("the text of a point whose type is not known to be nodeID can be replaced in the loop at %s: an ordinary point (description, units, …) whose text equals an id known to the map comes back from the import holding the replacement id", f.At(r.ptsLoop))
		}
		if p := s.Get("pend:txt"); p != "" {
			r.ptMsgs.viol("a fresh id is written to a node-id point (%s) without being recorded in the map under the old text: the node it refers to receives a different id", p[strings.Index(p, "@")+1:])
		}
	}
	resetIteration := func(s kit.S) kit.S {
		for _, k := range s.Keys() {
			if (strings.HasPrefix(k, "okof:") && strings.HasSuffix(s.Get(k), "|txt")) ||
				(strings.HasPrefix(k, "src:") && strings.HasSuffix(s.Get(k), ":txt")) ||
				(strings.HasPrefix(k, "kv:") && s.Get(k) == "txt") {
				s = s.Del(k)
			}
		}
		return s.Del("a:nid").Del("a:emp:txt").Del("s2").Del("miss:txt").Del("mfresh:txt").Del("pend:txt")
	}

	st.OnBranch = func(br kit.Branch, s kit.S) (t, fs []kit.S, handled bool) {
		if br.Kind != kit.BrRange {
			return nil, nil, false
		}
		switch br.Range {
		case r.ptsLoop:
			if s.Get("pit") == "1" {
				closeIteration(s)
			}
			base := resetIteration(s)
			return []kit.S{base.Set("pit", "1")}, []kit.S{base.Del("pit").Set("pdone", "1")}, true
		case r.chLoop:
			if s.Get("cit") == "1" && s.Get("crec") != "1" {
				r.treeMsgs.viol("a path through the loop over the children at %s does not recurse into the current child: %s not replaced", f.At(r.chLoop), r.duty())
			}
			base := s.Del("crec")
			return []kit.S{base.Set("cit", "1")}, []kit.S{base.Del("cit").Set("cdone", "1")}, true
		}
		return nil, nil, false
	}

	st.OnCall = func(call *ast.CallExpr, n ast.Node, s kit.S) []kit.S {
		if f.CalleeFunc(call) != f {
			return nil
		}
		r.recSeen = true
		if len(call.Args) != len(f.Params()) {
			r.treeMsgs.undec("recursive call %s", f.Str(call))
			return nil
		}
		// node argument: &N.Children[<key>]
		okArg := false
		if u, ok := ast.Unparen(call.Args[r.nIdx]).(*ast.UnaryExpr); ok && u.Op == token.AND && r.chLoop != nil {
			x := ast.Unparen(u.X)
			if ix, ok := x.(*ast.IndexExpr); ok && r.chLoop.Key != nil && kit.ObjOf(info, ix.Index) == kit.ObjOf(info, r.chLoop.Key) &&
				c15Field(info, ix.X, "Children", r.isN) {
				okArg = true
			} else if o := kit.ObjOf(info, x); o != nil && r.chCopies[o] {
				r.treeMsgs.viol("%s recurses into the address of the loop's value variable, a copy of the child: the replaced ids are lost", f.Str(call))
				okArg = true
			}
		}
		if !okArg {
			r.treeMsgs.undec("%s: the first argument is not the address of the current element of the node's Children", f.Str(call))
		}
		if s.Get("cit") != "1" {
			r.treeMsgs.undec("%s is not inside the loop over the node's Children", f.Str(call))
		}
		// a walk of a split replacement that does not set Parent hands nothing down
		if r.pIdx < 0 || (multi && !(r.writesParent && r.writesID)) {
			return []kit.S{s.Set("crec", "1")}
		}
		// parent argument: the node's new id
		arg := call.Args[r.pIdx]
		switch {
		case c15Field(info, arg, "ID", r.isN):
			if s.Get("s1") != "1" {
				r.treeMsgs.viol("%s hands the node's OLD id to its children as parent: after the import the children point to a node that does not exist", f.Str(call))
			}
		case kit.ObjOf(info, arg) == r.P:
			r.treeMsgs.viol("%s hands the node's own parent to its children: the tree is flattened", f.Str(call))
		case kit.ObjOf(info, arg) != nil && s.Get("idv") == kit.VarID(kit.ObjOf(info, arg)):
		case r.canon(arg, s) == "id":
			r.treeMsgs.viol("%s hands the node's OLD id (%s) to its children as parent", f.Str(call), f.Str(arg))
		default:
			r.treeMsgs.undec("%s: the parent argument is not the node's new id", f.Str(call))
		}
		return []kit.S{s.Set("crec", "1")}
	}

	st.OnNode = func(n ast.Node, s kit.S) []kit.S {
		switch y := n.(type) {
		case *ast.ReturnStmt:
			// the origin of the value an inlined helper hands back
			if st.Cur() != f && len(y.Results) == 1 {
				eff := ""
				switch {
				case r.isFresh(y.Results[0]):
					eff = "fresh"
				default:
					if o := kit.ObjOf(info, y.Results[0]); o != nil {
						id := kit.VarID(o)
						src := s.Get("src:" + id)
						switch {
						case strings.HasPrefix(src, "look:"):
							K := strings.TrimPrefix(src, "look:")
							switch r.lookupOutcome(s, id, K) {
							case "hit":
								eff = "hit:" + K
							case "miss":
								eff = "missval"
							default:
								eff = "look?:" + K
							}
						default:
							eff = src
						}
					}
				}
				return []kit.S{s.Set("lastret", eff)}
			}
			return []kit.S{s}
		case *ast.ValueSpec:
			for _, nm := range y.Names {
				s = r.forget(s, info.Defs[nm])
			}
			return []kit.S{s}
		case *ast.Ident:
			return []kit.S{r.forget(s, kit.ObjOf(info, y))}
		case *ast.AssignStmt:
			// V, ok = M[K]
			if len(y.Lhs) == 2 && len(y.Rhs) == 1 {
				if key, ok := r.isMapIndex(y.Rhs[0]); ok {
					K := r.canon(key, s)
					vo, oo := kit.ObjOf(info, y.Lhs[0]), kit.ObjOf(info, y.Lhs[1])
					s = r.forget(r.forget(s, vo), oo)
					if K == "" || K == "newid" || K == "newtxt" {
						r.idMsgs.viol("%s looks the id up under %s", f.Str(y), c15KeyName(K))
						return []kit.S{s}
					}
					vid := "_"
					if vo != nil {
						vid = kit.VarID(vo)
						s = s.Set("src:"+vid, "look:"+K)
					}
					if oo != nil {
						s = s.Set("okof:"+kit.VarID(oo), vid+"|"+K)
					}
					return []kit.S{s}
				}
			}
			if len(y.Lhs) != len(y.Rhs) {
				for _, l := range y.Lhs {
					s = r.forget(s, kit.ObjOf(info, l))
				}
				return []kit.S{s}
			}
			for i, l := range y.Lhs {
				rhs := y.Rhs[i]
				// M[K] = …
				if key, ok := r.isMapIndex(l); ok {
					K := r.canon(key, s)
					msgs := &r.idMsgs
					if K == "txt" || K == "newtxt" {
						msgs = &r.ptMsgs
					}
					if K == "" || K == "newid" || K == "newtxt" {
						msgs.viol("%s records the id under %s instead of the old value: later references to the old id are not found", f.Str(y), c15KeyName(K))
						continue
					}
					if !r.missKnown(s, K) {
						msgs.viol("%s stores an id for %s without a failed lookup under the same key on this path: an id handed out earlier for the same old id is overwritten", f.Str(y), c15KeyName(K))
						continue
					}
					switch {
					case r.isFresh(rhs):
						s = s.Set("mfresh:"+K, "1")
					case kit.ObjOf(info, rhs) != nil:
						vid := kit.VarID(kit.ObjOf(info, rhs))
						if s.Get("src:"+vid) == "fresh" {
							s = s.Set("src:"+vid, "stored:"+K)
							if p := s.Get("pend:" + K); strings.HasPrefix(p, vid+"@") {
								s = s.Del("pend:" + K)
							}
						} else {
							msgs.undec("%s stores a value whose origin is not followed", f.Str(y))
						}
					default:
						msgs.undec("%s stores a value whose origin is not followed", f.Str(y))
					}
					continue
				}
				// sinks
				switch {
				case c15Field(info, l, "ID", r.isN):
					r.s1Seen = true
					s = r.judgeSink(&r.idMsgs, "the node's ID", "id", rhs, s, y)
					idv := ""
					if o := kit.ObjOf(info, rhs); o != nil {
						idv = kit.VarID(o)
					}
					s = s.Set("s1", "1").Set("idv", idv).Del("a:emp:id")
					continue
				case c15Field(info, l, "Parent", r.isN):
					if kit.ObjOf(info, rhs) == r.P {
						s = s.Set("sp", "1")
					} else {
						r.treeMsgs.viol("%s: the node's Parent is set to %s, not to the parent handed down by the caller", f.Str(y), f.Str(rhs))
					}
					continue
				case r.isPtText(l):
					sel := ast.Unparen(l).(*ast.SelectorExpr)
					if in, _ := r.ptElem(sel.X); in {
						r.s2Seen = true
						s = r.judgeSink(&r.ptMsgs, "the point's Text", "txt", rhs, s, y)
						s = s.Set("s2", "1")
					}
					// writing to the loop's value variable changes a copy: no effect
					continue
				}
				// plain variable
				o := kit.ObjOf(info, l)
				if o == nil {
					continue
				}
				s = r.forget(s, o)
				id := kit.VarID(o)
				switch {
				case r.isFresh(rhs):
					s = s.Set("src:"+id, "fresh")
				default:
					if key, ok := r.isMapIndex(rhs); ok {
						K := r.canon(key, s)
						if s.Get("mfresh:"+K) == "1" || r.hitKnown(s, K) {
							s = s.Set("src:"+id, "stored:"+K)
						} else if K != "" {
							s = s.Set("src:"+id, "look:"+K)
						}
					} else if K := r.canon(rhs, s); K == "id" || K == "txt" {
						s = s.Set("kv:"+id, K)
					} else if ro := kit.ObjOf(info, rhs); ro != nil {
						src := s.Get("src:" + kit.VarID(ro))
						switch {
						case strings.HasPrefix(src, "look:"):
							// copy of a lookup result: settle the outcome now
							K := strings.TrimPrefix(src, "look:")
							switch r.lookupOutcome(s, kit.VarID(ro), K) {
							case "hit":
								s = s.Set("src:"+id, "stored:"+K)
							case "miss":
								s = s.Set("miss:"+K, "1")
							default:
								s = s.Set("src:"+id, src)
							}
						case src != "":
							s = s.Set("src:"+id, src) // copy of a fresh / recorded id
						}
					}
				}
			}
			return []kit.S{s}
		}
		return []kit.S{s}
	}

	res := c.P.Graph(f).Run(kit.NewS(), st.Client())
	if res.Overflow {
		c.Fatalf("C15/R3: state overflow in %s", f.Name)
	}
	for _, e := range res.Exits {
		s := e.State
		if s.Get("s1") != "1" && (r.writesID || !multi) {
			r.idMsgs.viol("%s can return without replacing the node's ID", f.Name)
		}
		if p := s.Get("pend:id"); p != "" {
			r.idMsgs.viol("a fresh id is written to a node with a non-empty old id (%s) without being recorded in the map under the old id: node-id points that refer to this node receive a different id", p[strings.Index(p, "@")+1:])
		}
		if s.Get("sp") != "1" && (r.writesParent || !multi) {
			r.treeMsgs.viol("%s can return without setting the node's Parent to the parent handed down", f.Name)
		}
		if r.ptsLoop != nil && s.Get("pdone") != "1" {
			r.ptMsgs.viol("%s can return without having visited the node's points", f.Name)
		}
		if r.chLoop != nil && s.Get("cdone") != "1" {
			r.treeMsgs.viol("%s can return without having visited the node's children", f.Name)
		}
		if s.Get("pit") == "1" || s.Get("cit") == "1" {
			r.treeMsgs.viol("%s can leave a loop over points/children early", f.Name)
		}
	}
	if len(res.Exits) == 0 {
		r.idMsgs.undec("%s has no exit", f.Name)
	}
	if r.chLoop == nil {
		if r.recSeen {
			r.treeMsgs.undec("%s visits the children in a loop the rule does not model (not a range over the node's Children)", f.Name)
		} else {
			r.treeMsgs.viol("%s does not visit the node's children", f.Name)
		}
	} else if !r.recSeen {
		r.treeMsgs.viol("%s never recurses", f.Name)
	}
	return r
}

// c15R3 judges the id replacement: one recursive walk over the tree, or several
// walks of one enclosing function (assign the ids / rewrite the references) that
// share the map.  Every walk is run on its own; what is required of the
// replacement as a whole is settled here.
func c15R3(c *kit.Ctx, a *c15Anchors, r3 *kit.Rule) {
	multi := len(a.replPasses) > 1
	var passes []*c15Repl
	for _, f := range a.replPasses {
		passes = append(passes, c15R3Pass(c, a, f, multi))
	}
	lead := a.replacer
	info := lead.Info()
	names := func(sel func(*c15Repl) bool) string {
		var out []string
		for _, r := range passes {
			if sel(r) {
				out = append(out, r.f.Name)
			}
		}
		return strings.Join(out, ", ")
	}
	pick := func(sel func(*c15Repl) bool) *kit.Func {
		for _, r := range passes {
			if sel(r) {
				return r.f
			}
		}
		return lead
	}

	// ---- one map
	oMap := r3.Ob(lead, lead.Node(), "one id map", "all lookups and stores go through one map[string]string that is created once outside the recursive function")
	var mapMsgs c15Msgs
	var M types.Object
	for _, r := range passes {
		mapMsgs.add(r.mapMsgs)
		switch {
		case r.M == nil:
		case M == nil:
			M = r.M
		case M != r.M:
			mapMsgs.viol("%s translates ids through the map %s, an earlier walk through %s: a node and the references to it are replaced independently", r.f.Name, r.M.Name(), M.Name())
		}
	}
	if M == nil {
		c.Fatalf("replacer %s: map variable not found", lead.Name)
	}
	mapMsgs.settle(oMap, "map %s declared at %s, assigned once, shared by every call", M.Name(), c.P.Pos(M.Pos()))

	// ---- node id
	fID := pick(func(r *c15Repl) bool { return r.writesID })
	oID := r3.Ob(fID, fID.Node(), "node id", "the id written to a node was found in the map under the node's old id, or is fresh and recorded under the old id after a failed lookup (empty old ids excepted)")
	var idMsgs c15Msgs
	nID := 0
	for _, r := range passes {
		idMsgs.add(r.idMsgs)
		if r.s1Seen {
			nID++
		}
	}
	switch {
	case nID == 0:
		idMsgs.viol("%s never assigns the node's ID", names(func(*c15Repl) bool { return true }))
	case nID > 1:
		idMsgs.undec("the node's ID is replaced in more than one walk (%s): the later one looks up ids that are already new", names(func(r *c15Repl) bool { return r.s1Seen }))
	}
	idMsgs.settle(oID, "lookup-or-create under the old id on every path")

	// ---- node-id points
	fPt := pick(func(r *c15Repl) bool { return r.ptsLoop != nil && r.writesText })
	oPt := r3.Ob(fPt, fPt.Node(), "node-id points", "exactly the points of type nodeID with non-empty text are rewritten, in the node's slice, by the same lookup-or-create under the old text")
	var ptMsgs c15Msgs
	nLoop, nS2, anyText := 0, 0, false
	for _, r := range passes {
		ptMsgs.add(r.ptMsgs)
		if r.ptsLoop != nil {
			nLoop++
		}
		if r.s2Seen {
			nS2++
		}
		anyText = anyText || r.writesText
	}
	all := names(func(*c15Repl) bool { return true })
	switch {
	case nLoop == 0 && anyText:
		ptMsgs.undec("%s rewrites point texts in a loop the rule does not model (not a range over the node's Points)", all)
	case nLoop == 0:
		ptMsgs.viol("%s does not visit the node's points: references held in node-id points keep the old ids", all)
	case nS2 == 0:
		ptMsgs.viol("%s never writes the text of an element of the node's Points slice", all)
	case nS2 > 1:
		ptMsgs.undec("point texts are rewritten in more than one walk (%s): the later one looks up texts that are already new", names(func(r *c15Repl) bool { return r.s2Seen }))
	}
	ptMsgs.settle(oPt, "lookup-or-create under the old text; only nodeID points with text")

	// ---- parent and children
	fTree := pick(func(r *c15Repl) bool { return r.writesParent })
	oTree := r3.Ob(fTree, fTree.Node(), "parent and children", "the node's Parent is the parent handed down; every child is visited through its slice element with the node's new id as parent")
	var treeMsgs c15Msgs
	nPar := 0
	for _, r := range passes {
		treeMsgs.add(r.treeMsgs)
		if r.writesParent {
			nPar++
		}
	}
	if multi && nPar == 0 {
		treeMsgs.viol("none of %s sets the node's Parent: the imported nodes keep the parents recorded in the file", all)
	}
	treeMsgs.settle(oTree, "Parent = handed-down parent; recursion on &Children[i] with the new id")

	// ---- entry calls: from the enclosing function, or (declared replacer) from its callers
	oEntry := r3.Ob(lead, lead.Node(), "entry call", "the replacement is started on the tree and the parent given to the entry function")
	var m c15Msgs
	started := ""
	for _, r := range passes {
		f := r.f
		var callers []*kit.Func
		if f.Outer != nil {
			callers = []*kit.Func{f.Outer}
		} else {
			for _, g := range c.P.Funcs("client") {
				if g == f || g.Body == nil || g.Lit != nil {
					continue
				}
				for _, call := range g.AllCalls(false) {
					if g.CalleeFunc(call) == f {
						callers = append(callers, g)
						break
					}
				}
			}
		}
		n := 0
		where := ""
		for _, outer := range callers {
			c.Analysed(outer)
			where += outer.Name + " "
			for _, call := range outer.AllCalls(false) {
				if outer.CalleeFunc(call) != f || len(call.Args) != len(f.Params()) {
					continue
				}
				n++
				var np, sp *types.Var
				for _, p := range outer.Params() {
					if _, isPtr := p.Type().(*types.Pointer); isPtr && c15IsNEC(p.Type()) {
						np = p
					} else if b, ok := p.Type().Underlying().(*types.Basic); ok && b.Kind() == types.String {
						sp = p
					}
				}
				if np == nil || kit.ObjOf(info, call.Args[r.nIdx]) != np {
					m.undec("%s: first argument is not the tree parameter", outer.Str(call))
				}
				if r.pIdx >= 0 && (sp == nil || kit.ObjOf(info, call.Args[r.pIdx]) != sp) {
					m.undec("%s: second argument is not the parent parameter", outer.Str(call))
				}
			}
		}
		if n != 1 {
			m.undec("%d entry calls of %s (in %s)", n, f.Name, strings.TrimSpace(where))
		}
		if !strings.Contains(" "+started, " "+where) {
			started += where
		}
	}
	if multi {
		m.settle(oEntry, "%s starts every walk (%s) once on its own parameters", strings.TrimSpace(started), all)
	} else {
		m.settle(oEntry, "%s starts the recursion on its own parameters", strings.TrimSpace(started))
	}
}

func c15WritesPointText(f *kit.Func, r *c15Repl) bool {
	found := false
	ast.Inspect(f.Body, func(n ast.Node) bool {
		if as, ok := n.(*ast.AssignStmt); ok {
			for _, l := range as.Lhs {
				if sel, ok := ast.Unparen(l).(*ast.SelectorExpr); ok && sel.Sel.Name == "Text" && kit.IsNamedType(r.info.TypeOf(sel.X), dataPkg, "Point") {
					found = true
				}
			}
		}
		return true
	})
	return found
}

// ---------------------------------------------------------------------------
// R4 — import marker and preserve-ids

func c15R4(c *kit.Ctx, a *c15Anchors, r4 *kit.Rule) {
	f := a.importer
	info := f.Info()
	desc := dataConst(c, "PointTypeDescription")
	// the decoded document
	doc := a.doc
	if doc == nil {
		c.Fatalf("importer %s: the decoded document is not held in a local variable", f.Name)
	}
	var pres *types.Var
	var strs []*types.Var
	for _, p := range f.Params() {
		if b, ok := p.Type().Underlying().(*types.Basic); ok {
			switch b.Kind() {
			case types.Bool:
				if pres != nil {
					c.Fatalf("importer %s has two bool parameters", f.Name)
				}
				pres = p
			case types.String:
				strs = append(strs, p)
			}
		}
	}
	if pres == nil {
		c.Fatalf("importer %s has no bool (preserve ids) parameter", f.Name)
	}
	// top(e): e is <doc>.<NEC slice field>[0]
	isTop := func(e ast.Expr) bool {
		e = ast.Unparen(e)
		if u, ok := e.(*ast.UnaryExpr); ok && u.Op == token.AND {
			e = ast.Unparen(u.X)
		}
		if st, ok := e.(*ast.StarExpr); ok {
			e = ast.Unparen(st.X)
		}
		e = ast.Unparen(c16Resolve(f, e))
		if u, ok := e.(*ast.UnaryExpr); ok && u.Op == token.AND {
			e = ast.Unparen(u.X)
		}
		ix, ok := e.(*ast.IndexExpr)
		if !ok {
			return false
		}
		if k, ok := kit.ConstInt(info, ix.Index); !ok || k != 0 {
			return false
		}
		sel, ok := ast.Unparen(ix.X).(*ast.SelectorExpr)
		if !ok || kit.ObjOf(info, sel.X) != doc {
			return false
		}
		sl, ok := info.TypeOf(sel).Underlying().(*types.Slice)
		return ok && c15IsNEC(sl.Elem())
	}

	// isTopLike: the points expression is rooted at an element of the document's
	// node slice (whatever the index): then "not the first node" is definite
	isTopLike := func(e ast.Expr) bool {
		sel, ok := ast.Unparen(e).(*ast.SelectorExpr)
		if !ok {
			return false
		}
		x := ast.Unparen(sel.X)
		if st, ok := x.(*ast.StarExpr); ok {
			x = ast.Unparen(st.X)
		}
		x = ast.Unparen(c16Resolve(f, x))
		if u, ok := x.(*ast.UnaryExpr); ok && u.Op == token.AND {
			x = ast.Unparen(u.X)
		}
		if ix, ok := x.(*ast.IndexExpr); ok {
			if s2, ok := ast.Unparen(ix.X).(*ast.SelectorExpr); ok && kit.ObjOf(info, s2.X) == doc {
				if k, isC := kit.ConstInt(info, ix.Index); isC && k == 0 {
					return true
				}
				return false
			}
		}
		return true
	}

	// ---- marker sinks: string constant concatenated to a field of a point, anywhere the importer can reach
	reach := c15Reach(f, map[*kit.Func]bool{a.list: true})
	for _, g := range c.P.Funcs("client") {
		for o := g.Outer; o != nil; o = o.Outer {
			if o == f {
				reach = append(reach, g)
			}
		}
	}
	// functions that run once per node: the recursive ones and what they reach
	perNode := map[*kit.Func]bool{}
	for _, g := range reach {
		if g.Body == nil {
			continue
		}
		for _, h := range c15Reach(g, map[*kit.Func]bool{a.list: true})[1:] {
			if h == g {
				perNode[g] = true
			}
		}
		for _, call := range g.AllCalls(false) {
			if g.CalleeFunc(call) == g {
				perNode[g] = true
			}
		}
	}
	for changed := true; changed; {
		changed = false
		for g := range perNode {
			for _, h := range c15Reach(g, map[*kit.Func]bool{a.list: true}) {
				if !perNode[h] {
					perNode[h] = true
					changed = true
				}
			}
		}
	}
	seenF := map[*kit.Func]bool{}
	nMark := 0
	for _, g := range reach {
		if seenF[g] || g.Body == nil {
			continue
		}
		seenF[g] = true
		gi := g.Info()
		ast.Inspect(g.Body, func(n ast.Node) bool {
			if _, isLit := n.(*ast.FuncLit); isLit {
				return false // literals are Funcs of their own
			}
			as, ok := n.(*ast.AssignStmt)
			if !ok || len(as.Lhs) != 1 || len(as.Rhs) != 1 {
				return true
			}
			sel, ok := ast.Unparen(as.Lhs[0]).(*ast.SelectorExpr)
			if !ok || !kit.IsNamedType(gi.TypeOf(sel.X), dataPkg, "Point") {
				return true
			}
			if b, ok := gi.TypeOf(sel).Underlying().(*types.Basic); !ok || b.Kind() != types.String {
				return true
			}
			// += const   or   = <same field> + const
			marker := false
			switch as.Tok {
			case token.ADD_ASSIGN:
				_, marker = kit.ConstString(gi, as.Rhs[0])
			case token.ASSIGN:
				if be, ok := ast.Unparen(as.Rhs[0]).(*ast.BinaryExpr); ok && be.Op == token.ADD {
					_, c1 := kit.ConstString(gi, be.X)
					_, c2 := kit.ConstString(gi, be.Y)
					marker = c1 != c2
				}
			}
			if !marker {
				return true
			}
			nMark++
			c.Analysed(g)
			o := r4.Ob(g, as, "marker "+g.Str(as.Rhs[0]), "a string constant is appended to a point field only in the importer, on an element of Nodes[0].Points whose type is description")
			viaHelper := false
			if g != f {
				if perNode[g] {
					o.Violation("%s appends a marker to a point in %s, which the importer runs for every node of the tree", g.Str(as), g.Name)
					return true
				}
				// a helper on a slice of points: which node's points is decided at its call sites
				lp := c15IndexLoopOf(c, g, as)
				var pp *types.Var
				pi := -1
				if lp != nil {
					for i, p := range g.Params() {
						if c15IsPointSlice(p.Type()) && kit.ObjOf(gi, lp.x) == p {
							pp, pi = p, i
						}
					}
				}
				if pp == nil {
					o.Undecided("%s appends a marker to a point in %s: which nodes that function is applied to is not followed", g.Str(as), g.Name)
					return true
				}
				nCalls := 0
				for _, h := range reach {
					if h.Body == nil {
						continue
					}
					for _, call := range h.AllCalls(false) {
						if h.CalleeFunc(call) != g || pi >= len(call.Args) {
							continue
						}
						nCalls++
						switch {
						case h == f && c15Field(info, call.Args[pi], "Points", isTop):
						case perNode[h]:
							o.Violation("%s marks the points it is given and is called for every node of the tree (%s in %s)", g.Name, h.Str(call), h.Name)
							return true
						case h == f && c15Field(info, call.Args[pi], "Points", func(ast.Expr) bool { return true }) && !isTopLike(call.Args[pi]):
							o.Violation("%s marks the points of %s, which is not the first node of the imported document", g.Name, h.Str(call.Args[pi]))
							return true
						default:
							o.Undecided("%s marks the points it is given; %s in %s is not visibly the first node's Points", g.Name, h.Str(call), h.Name)
							return true
						}
					}
				}
				if nCalls == 0 {
					o.Undecided("%s appends a marker to a point but no call of it is reachable from the importer", g.Name)
					return true
				}
				viaHelper = true
			}
			if sel.Sel.Name != "Text" {
				o.Violation("%s modifies the point's %s", g.Str(as), sel.Sel.Name)
				return true
			}
			// element of <top>.Points bound to the enclosing range loop
			loop := c15IndexLoopOf(c, g, as)
			ix, isIx := ast.Unparen(sel.X).(*ast.IndexExpr)
			if loop == nil || !isIx || loop.key == nil || kit.ObjOf(gi, ix.Index) != loop.key ||
				!kit.SameExpr(gi, ast.Unparen(ix.X), ast.Unparen(loop.x)) {
				o.Undecided("%s is not an element of the slice ranged over by the enclosing loop", g.Str(as))
				return true
			}
			if viaHelper {
				// the slice is the helper's parameter, bound to Nodes[0].Points at every call
			} else if !c15Field(gi, loop.x, "Points", isTop) {
				if c15Field(gi, loop.x, "Points", func(ast.Expr) bool { return true }) && !isTopLike(loop.x) {
					o.Violation("%s marks the points of %s, which is not the first node of the imported document", g.Str(as), g.Str(loop.x))
				} else {
					o.Undecided("%s: cannot tell which node's points %s are", g.Str(as), g.Str(loop.x))
				}
				return true
			}
			// unreachable when the element's type is not description
			elem := func(e ast.Expr) bool {
				e = ast.Unparen(e)
				if o := kit.ObjOf(gi, e); o != nil && loop.aliases[o] {
					return true
				}
				if jx, ok := e.(*ast.IndexExpr); ok {
					return kit.ObjOf(gi, jx.Index) == loop.key && kit.SameExpr(gi, ast.Unparen(jx.X), ast.Unparen(loop.x))
				}
				return false
			}
			st := &kit.Std{F: g}
			st.Eval.Atom = func(e ast.Expr) (string, bool, bool) {
				if neg, ok := eqAtom(e, func(x ast.Expr) bool { return c15Field(gi, x, "Type", elem) }, constStringIs(gi, desc)); ok {
					return "desc", neg, true
				}
				return "", false, false
			}
			hit := false
			st.OnNode = func(n ast.Node, s kit.S) []kit.S {
				if n == ast.Node(as) {
					hit = true
				}
				return []kit.S{s}
			}
			gr := c.P.Graph(g)
			_ = gr
			entry := loop.entry
			if entry == nil {
				o.Undecided("loop body not found in the CFG")
				return true
			}
			res := gr.RunFrom(entry, 0, kit.NewS().Set("a:desc", "F"), st.Client())
			c.AddValuations(1)
			if res.Overflow {
				c.Fatalf("C15/R4: state overflow in %s", g.Name)
			}
			if hit {
				o.Violation("%s is reachable for a point whose type is not description: other points of the top node are altered by the import", g.Str(as))
				return true
			}
			o.OK("only Nodes[0].Points[i].Text under Type == description")
			return true
		})
	}
	if nMark == 0 {
		c.Note("C15/R4: the importer appends no marker")
	}

	// ---- preserve-ids / replacement / parent of the top node
	pubs := publishers(c, "client")
	isReplacerCall := func(call *ast.CallExpr) bool {
		cf := f.CalleeFunc(call)
		return cf != nil && a.replacerOuter[cf]
	}
	isSend := func(call *ast.CallExpr) bool {
		cf := f.CalleeFunc(call)
		if cf == nil || !pubs[cf] || isReplacerCall(call) {
			return false
		}
		for _, arg := range call.Args {
			if isTop(arg) {
				return true
			}
		}
		return false
	}
	var parentParam *types.Var
	// the string parameter stored into the top node's Parent
	ast.Inspect(f.Body, func(n ast.Node) bool {
		if _, isLit := n.(*ast.FuncLit); isLit {
			return false
		}
		as, ok := n.(*ast.AssignStmt)
		if !ok || len(as.Lhs) != 1 || len(as.Rhs) != 1 {
			return true
		}
		if c15Field(info, as.Lhs[0], "Parent", isTop) {
			for _, p := range strs {
				if kit.ObjOf(info, as.Rhs[0]) == p {
					parentParam = p
				}
			}
		}
		return true
	})
	nSend := 0
	for _, call := range f.AllCalls(false) {
		if isSend(call) {
			nSend++
		}
	}
	if nSend == 0 {
		c.Fatalf("importer %s: no call that sends Nodes[0] to the bus found", f.Name)
	}
	run := func(val string) (replReached []*ast.CallExpr, sendNoRepl, sendNoParent, badArgs []string) {
		st := &kit.Std{F: f}
		st.Eval.Atom = func(e ast.Expr) (string, bool, bool) {
			if kit.ObjOf(info, e) == pres {
				return "pres", false, true
			}
			if neg, ok := eqAtom(e, func(x ast.Expr) bool { return kit.ObjOf(info, x) == pres }, func(x ast.Expr) bool {
				tv := info.Types[x]
				return tv.Value != nil && tv.Value.String() == "true"
			}); ok {
				return "pres", neg, true
			}
			if neg, ok := eqAtom(e, func(x ast.Expr) bool { return kit.ObjOf(info, x) == pres }, func(x ast.Expr) bool {
				tv := info.Types[x]
				return tv.Value != nil && tv.Value.String() == "false"
			}); ok {
				return "pres", !neg, true
			}
			return "", false, false
		}
		st.OnCall = func(call *ast.CallExpr, n ast.Node, s kit.S) []kit.S {
			switch {
			case isReplacerCall(call):
				replReached = append(replReached, call)
				good := len(call.Args) == 2 && isTop(call.Args[0]) && parentParam != nil && kit.ObjOf(info, call.Args[1]) == parentParam
				if _, isAddr := ast.Unparen(call.Args[0]).(*ast.UnaryExpr); len(call.Args) == 2 && !isAddr {
					if _, isPtr := info.TypeOf(call.Args[0]).(*types.Pointer); !isPtr {
						good = false
					}
				}
				if !good {
					c16Add(&badArgs, f.Str(call))
					return nil
				}
				return []kit.S{s.Set("repl", "1")}
			case isSend(call):
				if s.Get("repl") != "1" {
					c16Add(&sendNoRepl, f.At(call))
				}
				if s.Get("par") != "1" && s.Get("repl") != "1" {
					// (the replacer sets Parent to the parent it is given: R3)
					c16Add(&sendNoParent, f.At(call))
				}
			}
			return nil
		}
		st.OnNode = func(n ast.Node, s kit.S) []kit.S {
			if as, ok := n.(*ast.AssignStmt); ok && len(as.Lhs) == 1 && len(as.Rhs) == 1 && c15Field(info, as.Lhs[0], "Parent", isTop) {
				if parentParam != nil && kit.ObjOf(info, as.Rhs[0]) == parentParam {
					return []kit.S{s.Set("par", "1")}
				}
				return []kit.S{s.Del("par")}
			}
			return []kit.S{s}
		}
		res := c.P.Graph(f).Run(kit.NewS().Set("a:pres", val), st.Client())
		c.AddValuations(1)
		if res.Overflow {
			c.Fatalf("C15/R4: state overflow in %s", f.Name)
		}
		return
	}
	replT, _, noParT, _ := run("T")
	replF, noReplF, noParF, badF := run("F")

	oP := r4.Ob(f, a.unmarshal, "preserve ids", "with preserve-ids set no id replacement is reachable")
	if len(replT) > 0 {
		oP.Violation("with preserve-ids set the importer still reaches %s at %s: the imported ids differ from the exported ones", f.Str(replT[0]), f.At(replT[0]))
	} else {
		oP.OK("no replacer call reachable under preserve-ids")
	}
	oR := r4.Ob(f, a.unmarshal, "replace ids", "without preserve-ids every path to the send passes the replacer on &Nodes[0] with the requested parent")
	switch {
	case len(badF) > 0:
		oR.Violation("the replacer is not started on the top node with the requested parent: %s", strings.Join(badF, "; "))
	case len(noReplF) > 0:
		oR.Violation("without preserve-ids the send at %s is reachable without id replacement: importing a tree twice (or next to its original) reuses the same ids", strings.Join(noReplF, ", "))
	case len(replF) == 0:
		oR.Violation("no replacer call is reachable without preserve-ids")
	default:
		oR.OK("%s before the send on every path", f.Str(replF[0]))
	}
	oT := r4.Ob(f, a.unmarshal, "top parent", "the top node's Parent is the requested parent before the send (both modes)")
	switch {
	case parentParam == nil:
		oT.Violation("no string parameter of %s is stored into Nodes[0].Parent: the tree is imported under the parent recorded in the file", f.Name)
	case len(noParT)+len(noParF) > 0:
		oT.Violation("the send at %s is reachable before Nodes[0].Parent is set to %s", strings.Join(append(noParT, noParF...), ", "), parentParam.Name())
	default:
		oT.OK("Nodes[0].Parent = %s dominates the send", parentParam.Name())
	}
}

// c15IndexLoop describes the innermost loop around a node that visits the
// elements of a slice by index: `for k, v := range X` or `for i := 0; i < len(X); i++`.
type c15IndexLoop struct {
	stmt    ast.Stmt
	x       ast.Expr
	key     types.Object
	val     types.Object
	aliases map[types.Object]bool
	entry   *cfg.Block
}

func c15IndexLoopOf(c *kit.Ctx, g *kit.Func, n ast.Node) *c15IndexLoop {
	gi := g.Info()
	l := g.EnclosingLoop(n)
	if l == nil {
		return nil
	}
	out := &c15IndexLoop{stmt: l, x: l.X, entry: c15BodyEntry(c.P.Graph(g), l), aliases: kit.ElemAliases(gi, l)}
	if l.Key != nil {
		out.key = kit.ObjOf(gi, l.Key)
	}
	out.val = kit.LoopElemVar(gi, l)
	return out
}
