#!/usr/bin/env python3
"""Development-time validation of the rules (DESIGN.md §2.6 / §8.1); NOT a registered check.

Each mutant in selftest/mutants/*.json is {"prop","name","file","old","new","expect"(rule id or list),
"note"}, or has "edits":[{"old","new"},...], or "patch": "<unified diff, path relative to /verif>": `old` must occur exactly once in /repo/<file>; the mutated
file is handed to the checker through a go/packages overlay (nothing in /repo is touched); the checker
must exit 1 and name the expected rule.  `expect: "none"` marks a behaviour-preserving edit on which
the checker must stay silent (exit 0).
usage: run.py [-j N] [prop|name ...]      (env SIOTCHECK selects the binary)"""
import json, os, subprocess, sys, tempfile, glob, shutil
from concurrent.futures import ThreadPoolExecutor
V = '/verif'

def run_one(m):
    d = tempfile.mkdtemp(prefix='siotmut')
    try:
        if 'patch' in m:
            # a unified diff (possibly over several files), e.g. a filed benign refactoring
            # or seeded change: applied to copies of the touched files, handed over as overlay
            pf = m['patch'] if m['patch'].startswith('/') else V + '/' + m['patch']
            files = [l[6:].strip() for l in open(pf) if l.startswith('+++ b/')]
            olds = [l[6:].strip() for l in open(pf) if l.startswith('--- a/')]
            for f in set(files + olds):
                if os.path.exists('/repo/' + f):
                    os.makedirs(os.path.dirname(d + '/t/' + f), exist_ok=True)
                    shutil.copy('/repo/' + f, d + '/t/' + f)
            os.makedirs(d + '/t', exist_ok=True)
            r = subprocess.run(['patch', '-p1', '-s', '-d', d + '/t', '-i', pf], capture_output=True, text=True)
            if r.returncode != 0:
                return False, f"SKIP? {m['prop']} {m['name']}: patch does not apply: {r.stdout[:200]}", ''
            ovm = {}
            for f in set(files):
                ovm['/repo/' + f] = d + '/t/' + f
        else:
            src = open('/repo/' + m['file']).read()
            edits = m.get('edits') or [{'old': m['old'], 'new': m['new']}]
            for e in edits:
                if src.count(e['old']) != 1:
                    return False, f"SKIP? {m['prop']} {m['name']}: 'old' occurs {src.count(e['old'])}x", ''
                src = src.replace(e['old'], e['new'])
            mp = os.path.join(d, 'mut.go'); open(mp, 'w').write(src)
            ovm = {'/repo/' + m['file']: mp}
        ov = os.path.join(d, 'ov.json'); json.dump(ovm, open(ov, 'w'))
        os.makedirs(d + '/evidence')
        if os.path.exists(V + '/known-findings.json'):
            shutil.copy(V + '/known-findings.json', d)
        env = dict(os.environ, SIOT_OVERLAY=ov, SIOT_VERIF=d)
        r = subprocess.run([os.environ.get('SIOTCHECK', V + '/bin/siotcheck'), '-prop', m['prop']], env=env, capture_output=True, text=True)
        out = r.stdout + r.stderr
        exp = m['expect'] if isinstance(m['expect'], list) else [m['expect']]
        if exp == ['none']:
            good = r.returncode == 0
        else:
            good = r.returncode == 1 and all(f"{m['prop']}/{x} " in out for x in exp)
        line = ('ok   ' if good else 'FAIL ') + f"{m['prop']} {m['name']} exit={r.returncode} expect={exp}"
        detail = ''
        if not good:
            detail = '\n'.join('      ' + l for l in out.splitlines() if 'VIOLATION' in l or 'CHECKER-ERROR' in l or '/R' in l and 'rule ' not in l)[:3000]
        return good, line, detail
    finally:
        shutil.rmtree(d)

def main():
    args = sys.argv[1:]
    jobs = 6
    if args and args[0] == '-j':
        jobs = int(args[1]); args = args[2:]
    want = set(args)
    todo = []
    for mf in sorted(glob.glob(V + '/selftest/mutants/*.json')):
        for m in json.load(open(mf)):
            if want and m['prop'] not in want and m['name'] not in want:
                continue
            todo.append(m)
    bad = 0
    with ThreadPoolExecutor(max_workers=jobs) as ex:
        for good, line, detail in ex.map(run_one, todo):
            print(line, flush=True)
            if not good:
                bad += 1
                if detail:
                    print(detail)
    print(f"{len(todo)} mutants, {bad} problems")
    sys.exit(1 if bad else 0)
main()
