#!/usr/bin/env python3
"""Development-time validation of the rules (DESIGN.md §2.6); NOT a registered check.

Each mutant in selftest/mutants/*.json is {"prop","name","file","old","new","expect"(rule id or list),
"note"}: `old` must occur exactly once in /repo/<file>; the mutated file is handed to the
checker through a go/packages overlay (nothing in /repo is touched); the checker must exit 1
and name the expected rule.  `expect: "none"` marks a behaviour-preserving edit on which
the checker must stay silent (exit 0).
usage: run.py [prop ...]"""
import json, os, subprocess, sys, tempfile, glob, shutil
V = '/verif'
def main():
    want = set(sys.argv[1:])
    files = sorted(glob.glob(V + '/selftest/mutants/*.json'))
    bad = 0; n = 0
    for mf in files:
        for m in json.load(open(mf)):
            if want and m['prop'] not in want and m['name'] not in want: continue
            n += 1
            src = open('/repo/' + m['file']).read()
            edits = m.get('edits') or [{'old': m['old'], 'new': m['new']}]
            ok = True
            for e in edits:
                if src.count(e['old']) != 1:
                    print(f"SKIP? {m['prop']} {m['name']}: 'old' occurs {src.count(e['old'])}x"); ok = False; break
                src = src.replace(e['old'], e['new'])
            if not ok: bad += 1; continue
            d = tempfile.mkdtemp(prefix='siotmut')
            try:
                mp = os.path.join(d, 'mut.go'); open(mp, 'w').write(src)
                ov = os.path.join(d, 'ov.json'); json.dump({'/repo/' + m['file']: mp}, open(ov, 'w'))
                os.makedirs(d + '/evidence'); shutil.copy(V + '/known-findings.json', d) if os.path.exists(V + '/known-findings.json') else None
                env = dict(os.environ, SIOT_OVERLAY=ov, SIOT_VERIF=d)
                r = subprocess.run([os.environ.get('SIOTCHECK', V + '/bin/siotcheck'), '-prop', m['prop']], env=env, capture_output=True, text=True)
                out = r.stdout + r.stderr
                exp = m['expect'] if isinstance(m['expect'], list) else [m['expect']]
                if exp == ['none']:
                    good = r.returncode == 0
                else:
                    good = r.returncode == 1 and all(f"{m['prop']}/{x} " in out for x in exp)
                print(('ok   ' if good else 'FAIL ') + f"{m['prop']} {m['name']} exit={r.returncode} expect={exp}")
                if not good:
                    bad += 1
                    print('\n'.join('      ' + l for l in out.splitlines() if 'VIOLATION' in l or 'CHECKER-ERROR' in l or '/R' in l and 'rule ' not in l)[:3000])
            finally:
                shutil.rmtree(d)
    print(f"{n} mutants, {bad} problems")
    sys.exit(1 if bad else 0)
main()
